#!/bin/bash
# run_mutants.sh [-k] <govc args...> -- <diff files...>
# Applies each diff to a scratch copy of /repo (outside /repo and /verif), runs govc on it, prints the
# failed obligations' tags.  Scratch copies are removed immediately.
export GOFLAGS=-mod=mod GOPROXY=off GOSUMDB=off GOTOOLCHAIN=local
ARGS=()
while [ $# -gt 0 ] && [ "$1" != "--" ]; do ARGS+=("$1"); shift; done
shift
BASE=${TMPDIR:-/var/tmp}
for d in "$@"; do d=$(readlink -f "$d")
  S=$(mktemp -d $BASE/verif-scratch.XXXXXX)
  rsync -a --exclude .git /repo/ $S/
  if ! (cd $S && patch -p1 -s < "$d"); then echo "$(basename $d): PATCH FAILED"; rm -rf $S; continue; fi
  if ! (cd $S && go build ./... 2>&1 | head -5 | grep -q . ); then :; else echo "$(basename $d): DOES NOT COMPILE"; (cd $S && go build ./... 2>&1 | head -5); rm -rf $S; continue; fi
  OUT=$(/verif/bin/govc -repo $S "${ARGS[@]}" -out $S/.report.json 2>&1)
  RES=$(python3 - $S/.report.json <<'PY'
import json,sys
try:
    r=json.load(open(sys.argv[1]))
except Exception as e:
    print("NO-REPORT"); sys.exit()
bad=[o for o in r['obligations'] if (o['status'] in ('failed','unknown') and not o['kind'].startswith('known-inside')) or (o['status']=='vacuous' and o['kind'].startswith('vacuity'))]
tags=sorted({t for o in bad for t in (o['tags'] or [])} | {o['kind'] for o in bad if not o['tags']})
print(("KILLED by "+",".join(tags)) if bad else ("SURVIVED" if not r['errors'] else "ENGINE-ERROR "+r['errors'][0]))
PY
)
  echo "$(basename $d): $RES"
  rm -rf $S
done
