#!/bin/bash
# process_seed.sh <PID> [name]: take the sub-agent's output from /tmp/wt-<PID>/SEED, confirm it independently in a scratch copy
# (compiles, existing suite passes with the change, demo fails with / passes without), run every registered check
# against the changed tree, and record everything under /verif/seeded/<name>/.
export GOFLAGS=-mod=mod GOPROXY=off GOSUMDB=off GOTOOLCHAIN=local
PID=$1; NAME=${2:-$PID}
SRC=/tmp/wt-$PID/SEED
DST=/verif/seeded/$NAME
mkdir -p $DST
# re-confirmation mode (no sub-agent worktree left: e.g. a patch rebased by us onto a later fix): use seeded/<name> as it is
if [ -d $SRC ]; then
cp $SRC/patch.diff $DST/patch.diff 2>/dev/null || (cd /tmp/wt-$PID && git diff HEAD -- . ':(exclude)*_verif.go' ':(exclude)SEED' > $DST/patch.diff)
# the worktrees had the *_verif.go hook files deleted: make sure the patch does not mention them
python3 - $DST/patch.diff <<'PY'
import sys,re
p=sys.argv[1]; s=open(p).read()
parts=re.split(r'(?m)^(?=diff --git )',s)
keep=[x for x in parts if x.strip() and '_verif.go' not in x.split('\n')[0] and 'SEED/' not in x.split('\n')[0]]
open(p,'w').write(''.join(keep))
PY
for f in $SRC/*; do b=$(basename $f); case $b in patch.diff|PROMPT.txt) ;; *) cp $f $DST/;; esac; done
fi
S=$(mktemp -d ${TMPDIR:-/var/tmp}/verif-seed.XXXXXX)
rsync -a --exclude .git /repo/ $S/
DEMO_PLACE=$(python3 -c "import json;print(json.load(open('$DST/meta.json')).get('demo_place','').split()[0])")
DEMO_FILE=$(ls $DST | grep -v -e patch.diff -e meta.json -e RESULT -e go.mod | grep -e '_test.go' | head -1)
echo "demo file: $DEMO_FILE -> $DEMO_PLACE"
PKG=$(dirname $DEMO_PLACE)
TAGS=$(python3 -c "
import json,re
m=json.load(open('$DST/meta.json')); c=m.get('demo_cmd','')
t=re.search(r'-tags[ =](\\S+)',c); print(('-tags '+t.group(1)) if t else '')")
RUNRE=$(grep -o 'func Test[A-Za-z0-9_]*' $DST/$DEMO_FILE | sed 's/func //' | paste -sd'|')
cp $DST/$DEMO_FILE $S/$DEMO_PLACE
( cd $S && go test $TAGS -vet=off -count=1 -timeout 120s -run "^($RUNRE)\$" ./$PKG/ > $DST/.demo_without.log 2>&1 ); W0=$?
( cd $S && git init -q . 2>/dev/null; git apply $DST/patch.diff ) || { echo "PATCH DOES NOT APPLY"; rm -rf $S; exit 1; }
( cd $S && go build ./... > $DST/.build.log 2>&1 ); B=$?
( cd $S && go test $TAGS -vet=off -count=1 -timeout 120s -run "^($RUNRE)\$" ./$PKG/ > $DST/.demo_with.log 2>&1 ); W1=$?
rm $S/$DEMO_PLACE
( cd $S && go test -vet=off -count=1 ./... > $DST/.suite_with.log 2>&1 ); T=$?
echo "build=$B suite_with_change=$T demo_without_change=$W0 demo_with_change=$W1   (want 0 0 0 nonzero)"
# run all registered checks on the changed tree, from a snapshot of /verif (so that work on /verif meanwhile cannot distort the result)
SNAP=$(mktemp -d ${TMPDIR:-/var/tmp}/verif-snap.XXXXXX)
rsync -a --exclude .git --exclude out --exclude evidence --exclude seeded /verif/ $SNAP/
RES=""
ALLCHECKS=$(python3 -c "import json;print(' '.join(c['property_id'] for c in json.load(open('/verif/MANIFEST.json'))['checks']))")
# FAST=1: only the check of the seed's own property here (run_seeded.sh records which checks raise, for all of them)
[ -n "$FAST" ] && ALLCHECKS=${NAME:0:3}
for p in $ALLCHECKS; do
  OUT=$(set -o pipefail; VERIF_REPO=$S VERIF_EVIDENCE_DIR=$S/.evidence $SNAP/check $p 2>&1 | sed "s#$SNAP#/verif#g"); RC=$?
  V=$(echo "$OUT" | grep -c '^VIOLATION')
  U=$(echo "$OUT" | grep -c '^UNDECIDED')
  if [ $RC -ne 0 ]; then RES="$RES $p(rc=$RC,viol=$V,undecided=$U)"; echo "$OUT" | grep -e '^VIOLATION' -e '^UNDECIDED' | cut -c1-260 | head -4; fi
done
echo "checks raising on the seeded change:${RES:- none}"
python3 - $DST "$B" "$T" "$W0" "$W1" "$RES" <<'PY'
import json,sys
d,b,t,w0,w1,res=sys.argv[1:7]
m=json.load(open(d+'/meta.json'))
m['confirmed_by_us']={'build_rc':int(b),'existing_suite_with_change_rc':int(t),'demo_without_change_rc':int(w0),'demo_with_change_rc':int(w1),
  'ran':'rsync copy of /repo; demo placed at demo_place; go test -run <demo tests> without and with patch.diff; go build ./...; go test ./... with the patch and without the demo'}
m['checks_raising']=res.strip()
json.dump(m,open(d+'/meta.json','w'),indent=1)
PY
rm -rf $S $SNAP $DST/.build.log
# restore evidence for the unchanged tree is the caller's job (checks rewrite evidence on every run)
