#!/bin/bash
# run_mutants_checks.sh [diff files...]: every hand-written mutant against the registered check of a property it must break
# (the first Cxx tag recorded for it in mutants/KILLED_BY.txt, else the first property of its name's letter).  SHARD=i/n.
cd /verif
FILES=${@:-selftest/mutants/*.diff}
if [ -n "$SHARD" ]; then I=${SHARD%/*}; N=${SHARD#*/}; FILES=$(echo $FILES | tr ' ' '\n' | awk -v i=$I -v n=$N 'NR % n == i % n'); fi
declare -A PFX=( [u]=C09 [a]=C02 [m]=C05 [s]=C06 [b]=C10 [f]=C13 [d]=C15 [h]=C16 [t]=C19 [x]=C11 [w]=C12 [p]=C05 )
for f in $FILES; do
  n=$(basename $f .diff)
  p=$(grep "^$n " selftest/mutants/KILLED_BY.txt | awk '{print $2}' | tr ',' '\n' | grep -o '^C[0-9][0-9]' | head -1)
  [ -z "$p" ] && p=${PFX[${n:0:1}]}
  OUT=$(selftest/check_on.sh $f $p 2>&1)
  if echo "$OUT" | grep -q "exit=1"; then echo "$n: KILLED by $p"; else echo "$n: NOT KILLED by $p: $(echo "$OUT" | head -3 | tr '\n' ' ' | cut -c1-200)"; fi
done
