#!/bin/bash
# run_seeded.sh [names...]: apply each /verif/seeded/<name>/patch.diff to a scratch copy of /repo, run every registered check on
# it, and record which checks raise a VIOLATION in /verif/seeded/<name>/RESULT.txt. Scratch copies are removed at once.
export GOFLAGS=-mod=mod GOPROXY=off GOSUMDB=off GOTOOLCHAIN=local
cd /verif
NAMES=${@:-$(ls seeded)}
CHECKS=$(python3 -c "import json;print(' '.join(c['property_id'] for c in json.load(open('/verif/MANIFEST.json'))['checks']))")
for n in $NAMES; do
  S=$(mktemp -d ${TMPDIR:-/var/tmp}/verif-seed.XXXXXX)
  rsync -a --exclude .git /repo/ $S/
  (cd $S && git init -q . && git apply /verif/seeded/$n/patch.diff) || { echo "$n: PATCH DOES NOT APPLY"; rm -rf $S; continue; }
  : > seeded/$n/RESULT.txt
  RAISED=""
  for p in $CHECKS; do
    OUT=$(VERIF_REPO=$S VERIF_EVIDENCE_DIR=$S/.evidence ./check $p 2>&1); RC=$?
    if [ $RC -ne 0 ]; then RAISED="$RAISED $p"; echo "$OUT" | grep -e '^VIOLATION' -e '^UNDECIDED' | sed "s#$S#<scratch>#g" | cut -c1-300 >> seeded/$n/RESULT.txt; fi
  done
  echo "$n: raised by:${RAISED:- NONE}"
  echo "raised by:${RAISED:- NONE}" >> seeded/$n/RESULT.txt
  rm -rf $S
done
