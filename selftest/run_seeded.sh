#!/bin/bash
# run_seeded.sh [names...]: apply each /verif/seeded/<name>/patch.diff to a scratch copy of /repo, run every registered check on
# it, and record which checks raise a VIOLATION (exit 1) in /verif/seeded/<name>/RESULT.txt.  The machinery is run from a
# snapshot of /verif taken at start (so that editing /verif meanwhile cannot distort the result); UNDECIDED (exit 3) is
# recorded but never counted as raised.  Scratch copies are removed at once.
export GOFLAGS=-mod=mod GOPROXY=off GOSUMDB=off GOTOOLCHAIN=local
cd /verif
NAMES=${@:-$(ls seeded)}
# SHARD=i/n: only every n-th seed starting at i (to run several shards side by side)
if [ -n "$SHARD" ]; then I=${SHARD%/*}; N=${SHARD#*/}; NAMES=$(echo $NAMES | tr ' ' '\n' | awk -v i=$I -v n=$N 'NR % n == i % n'); fi
CHECKS=$(python3 -c "import json;print(' '.join(c['property_id'] for c in json.load(open('/verif/MANIFEST.json'))['checks']))")
SNAP=$(mktemp -d ${TMPDIR:-/var/tmp}/verif-snap.XXXXXX)
rsync -a --exclude .git --exclude out --exclude evidence /verif/ $SNAP/
RSNAP=$(mktemp -d ${TMPDIR:-/var/tmp}/verif-rsnap.XXXXXX)   # /repo as it is now: later hook commits must not mix with the /verif snapshot
rsync -a --exclude .git /repo/ $RSNAP/
trap 'rm -rf $SNAP $RSNAP' EXIT
for n in $NAMES; do
  S=$(mktemp -d ${TMPDIR:-/var/tmp}/verif-seed.XXXXXX)
  rsync -a $RSNAP/ $S/
  (cd $S && git init -q . && git apply /verif/seeded/$n/patch.diff) || { echo "$n: PATCH DOES NOT APPLY"; rm -rf $S; continue; }
  # OWN=1: only the check of the seed's own property, nothing recorded (a quick pass after a change to the machinery)
  if [ -n "$OWN" ]; then
    p=${n:0:3}
    OUT=$(VERIF_REPO=$S VERIF_EVIDENCE_DIR=$S/.evidence $SNAP/check $p 2>&1); RC=$?
    if [ $RC -eq 1 ]; then echo "$n: raised by its own check $p"; else echo "$n: NOT RAISED by $p (exit $RC)"; echo "$OUT" | grep -e '^UNDECIDED' | head -3; fi
    rm -rf $S; continue
  fi
  : > seeded/$n/RESULT.txt
  RAISED=""; UNDEC=""
  for p in $CHECKS; do
    OUT=$(VERIF_REPO=$S VERIF_EVIDENCE_DIR=$S/.evidence $SNAP/check $p 2>&1); RC=$?
    if [ $RC -eq 1 ]; then RAISED="$RAISED $p"; elif [ $RC -ne 0 ]; then UNDEC="$UNDEC $p"; fi
    if [ $RC -ne 0 ]; then echo "$OUT" | grep -e '^VIOLATION' -e '^UNDECIDED' | sed -e "s#$S#<scratch>#g" -e "s#$SNAP#/verif#g" | cut -c1-300 >> seeded/$n/RESULT.txt; fi
  done
  echo "$n: raised by:${RAISED:- NONE}${UNDEC:+   (undecided:$UNDEC)}"
  [ -n "$UNDEC" ] && echo "undecided:$UNDEC" >> seeded/$n/RESULT.txt
  echo "raised by:${RAISED:- NONE}" >> seeded/$n/RESULT.txt
  rm -rf $S
done
