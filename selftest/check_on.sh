#!/bin/bash
# check_on.sh <patch.diff> <property ids...>: run the registered checks against a scratch copy of /repo with the patch applied
# (scratch copy removed at once).  Prints the VIOLATION / UNDECIDED lines and the exit code per property.
export GOFLAGS=-mod=mod GOPROXY=off GOSUMDB=off GOTOOLCHAIN=local
P=$(readlink -f $1); shift
S=$(mktemp -d ${TMPDIR:-/var/tmp}/verif-scratch.XXXXXX)
rsync -a --exclude .git /repo/ $S/
(cd $S && git init -q . && git apply $P) || { echo "PATCH DOES NOT APPLY"; rm -rf $S; exit 2; }
for p in "$@"; do
  OUT=$(VERIF_REPO=$S VERIF_EVIDENCE_DIR=$S/.evidence /verif/check $p 2>&1); RC=$?
  echo "== $p exit=$RC"
  echo "$OUT" | grep -e '^VIOLATION' -e '^UNDECIDED' -e '^KNOWN' | sed "s#$S#<scratch>#g" | cut -c1-${COLS:-260}
done
rm -rf $S
