#!/bin/bash
# run_refactors.sh: the must-PASS corpus -- behaviour-preserving edits of /repo; no check may raise on any of them.
export GOFLAGS=-mod=mod GOPROXY=off GOSUMDB=off GOTOOLCHAIN=local
cd /verif
declare -A REL=( [r31]="C05 C06 C07 C16" [r01]="C01 C03 C04 C07 C08 C09 C10 C20" [r02]="C01 C05 C08 C09 C20" [r03]="C01 C02 C03 C04 C07 C08 C09 C12 C19 C20" [r05]="C01 C03 C07 C09 C19 C20" [r06]="C01 C03 C04 C05 C06 C07 C08 C09 C12 C19 C20" [r07]="C10 C12 C19" [r08]="C13 C19" [r09]="C01 C03 C05 C12" [r10]="C12 C15 C19" [r11]="C03 C06 C07 C16" [r12]="C01 C03 C07 C09 C10 C13 C16 C19" [r13]="C10 C12 C19" [r14]="C03 C05 C06 C07 C12" [r15]="C10 C12 C19" [r16]="C11 C19" [r17]="C12 C19" [r18]="C02 C12" [r19]="C10 C11 C19" [r20]="C10 C12" [r21]="C02 C12" [r22]="C03 C16" [r23]="C15 C12 C19" [r24]="C16 C19" [r25]="C10 C12 C19" [r26]="C01 C03 C07 C09 C20" [r27]="C16 C10 C12" [r28]="C16 C19" [r29]="C02 C12" [r30]="C15 C12 C19" )
for d in ${@:-selftest/refactors/*.diff}; do
  n=$(basename $d); k=${n:0:3}
  S=$(mktemp -d ${TMPDIR:-/var/tmp}/verif-scratch.XXXXXX)
  rsync -a --exclude .git /repo/ $S/
  (cd $S && patch -p1 -s < /verif/$d) || { echo "$n: PATCH FAILED"; rm -rf $S; continue; }
  (cd $S && go build ./... && go test -vet=off -count=1 ./... >/dev/null 2>&1) || { echo "$n: build or suite fails"; rm -rf $S; continue; }
  BAD=""
  for p in ${REL[$k]}; do
    OUT=$(VERIF_REPO=$S VERIF_EVIDENCE_DIR=$S/.ev ./check $p 2>&1); RC=$?
    if [ $RC -ne 0 ]; then BAD="$BAD $p"; echo "$OUT" | grep -e '^VIOLATION' -e '^UNDECIDED' | sed "s#$S#<scratch>#g" | cut -c1-220 | head -3; fi
  done
  echo "$n: ${BAD:+ALARM by$BAD}${BAD:-passes all of: ${REL[$k]}}"
  rm -rf $S
done
