#!/bin/bash
# precommit.sh: every registered check must exit 0 on /repo's current tree (run before every commit of /verif or of a hook in /repo).
cd /verif
BAD=0
for p in $(python3 -c "import json;print(' '.join(c['property_id'] for c in json.load(open('/verif/MANIFEST.json'))['checks']))"); do
  OUT=$(./check $p 2>&1); RC=$?
  echo "$OUT" | tail -1 | awk -v rc=$RC '{print $1,$3,$4,"exit="rc}'
  if [ $RC -ne 0 ]; then BAD=1; echo "$OUT" | grep -e '^VIOLATION' -e '^UNDECIDED' | cut -c1-300; fi
done
[ $BAD -eq 0 ] && echo "ALL CHECKS PASS" || { echo "SOME CHECK FAILS: do not commit"; exit 1; }
