#!/bin/bash
# mutant_suite.sh <diff files...>: each change must compile and pass the repository's existing test suite (otherwise it is not a
# mutant the tests miss).  Scratch copies are removed at once.
export GOFLAGS=-mod=mod GOPROXY=off GOSUMDB=off GOTOOLCHAIN=local
for d in "$@"; do
  d=$(readlink -f $d)
  S=$(mktemp -d ${TMPDIR:-/var/tmp}/verif-scratch.XXXXXX)
  rsync -a --exclude .git /repo/ $S/
  (cd $S && git init -q . && git apply $d) || { echo "$(basename $d): PATCH DOES NOT APPLY"; rm -rf $S; continue; }
  if ! (cd $S && go build ./... >/dev/null 2>&1); then echo "$(basename $d): DOES NOT COMPILE"; rm -rf $S; continue; fi
  if (cd $S && go test -vet=off -count=1 ./... > $S/.t.log 2>&1); then echo "$(basename $d): suite passes"; else echo "$(basename $d): SUITE FAILS"; grep -e "^--- FAIL" -e "^FAIL" $S/.t.log | head -5; fi
  rm -rf $S
done
