#!/usr/bin/env python3
"""mkmutant.py <out.diff> <repo-relative-file> <old> <new> [<old2> <new2> ...]  -- build a unified diff against /repo."""
import sys, difflib
out, rel = sys.argv[1], sys.argv[2]
src = open('/repo/' + rel).read()
new = src
pairs = sys.argv[3:]
for i in range(0, len(pairs), 2):
    o, n = pairs[i], pairs[i+1]
    o = o.encode().decode('unicode_escape'); n = n.encode().decode('unicode_escape')
    if new.count(o) != 1:
        sys.exit(f"pattern occurs {new.count(o)} times: {o!r}")
    new = new.replace(o, n)
d = difflib.unified_diff(src.splitlines(True), new.splitlines(True), 'a/' + rel, 'b/' + rel)
open(out, 'w').write(''.join(d))
print("wrote", out)
