#!/usr/bin/env python3
"""Rewrites the block between <!-- SEED-MATRIX --> markers in DESIGN.md from /verif/seeded/*/RESULT.txt."""
import glob, os, re
rows = []
for d in sorted(glob.glob("/verif/seeded/*")):
    r = os.path.join(d, "RESULT.txt")
    if not os.path.exists(r):
        rows.append((os.path.basename(d), "(not run yet)"))
        continue
    last = [l for l in open(r).read().splitlines() if l.startswith("raised by:")]
    rows.append((os.path.basename(d), last[-1][len("raised by:"):].strip() if last else "?"))
out = ["<!-- SEED-MATRIX -->", "Which checks raise a VIOLATION on which seeded change (last full `run_seeded.sh` run, from snapshots of /verif and /repo;",
       "the tables above describe the changes; a seed named Cxx, Cxxb, Cxxc, Cxxd was written against property Cxx):", "",
       "| seed | raised by |", "|------|-----------|"]
for n, v in rows:
    own = n[:3]
    mark = "" if own in v.split() else "  **(not by its own property's check)**"
    out.append("| %s | %s%s |" % (n, v, mark))
out.append("<!-- /SEED-MATRIX -->")
p = "/verif/DESIGN.md"
s = open(p).read()
blk = "\n".join(out)
if "<!-- SEED-MATRIX -->" in s:
    s = re.sub(r"<!-- SEED-MATRIX -->.*?<!-- /SEED-MATRIX -->", lambda m: blk, s, flags=re.S)
else:
    s = s.replace("### 0.6 Assumptions actually in force", blk + "\n\n### 0.6 Assumptions actually in force", 1)
open(p, "w").write(s)
print("rows:", len(rows))
