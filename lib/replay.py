"""Replay of solver counterexamples on the real code (go test -overlay, nothing is written into /repo).

A concretiser exists per function under contract where one has been built; it turns the model projected on
the contract vocabulary into a Go test that builds real objects, calls the real function and evaluates the
contract clauses in executable form.  A replay `confirms` when the tag of the failed obligation is among the
clauses that fail on the real run.
"""
import json, os, re, subprocess, tempfile

ENV = dict(os.environ, GOFLAGS="-mod=mod", GOPROXY="off", GOSUMDB="off", GOTOOLCHAIN="local")


def parse_model(text):
    m = {}
    for line in (text or "").splitlines():
        if " = " not in line:
            continue
        k, v = line.split(" = ", 1)
        k, v = k.strip(), v.strip()
        if v in ("true", "false"):
            m[k] = (v == "true")
        elif v.startswith("#x"):
            m[k] = int(v[2:], 16)
        elif v.startswith("#b"):
            m[k] = int(v[2:], 2)
        elif re.fullmatch(r"\(- (\d+)\)", v):
            m[k] = -int(v[3:-1])
        elif re.fullmatch(r"-?\d+", v):
            m[k] = int(v)
        else:
            m[k] = v
    return m


def go_test_overlay(repo, pkg_dir, virtual_name, real_file, run, env_extra, timeout=120, tags=None):
    ov = {"Replace": {os.path.join(repo, pkg_dir, virtual_name): real_file}}
    with tempfile.NamedTemporaryFile("w", suffix=".json", delete=False, dir=os.environ.get("TMPDIR", "/var/tmp")) as f:
        json.dump(ov, f)
        ovp = f.name
    try:
        cmd = ["go", "test"] + (["-tags", tags] if tags else []) + ["-overlay", ovp, "-vet=off", "-count=1", "-timeout", "60s", "-run", run, "-v", "./" + pkg_dir + "/"]
        r = subprocess.run(cmd, cwd=repo, env=dict(ENV, **env_extra), capture_output=True, text=True, timeout=timeout)
        return cmd, r.returncode, r.stdout + r.stderr
    finally:
        os.unlink(ovp)


def update_model(m):
    g = lambda k, d=None: m.get(k, d)
    nsig_next = g("nsigNext", 1)
    nsigners = g("nSigners", 1)
    if isinstance(nsig_next, int) and nsig_next > 100:
        nsig_next = 100
    return {
        "Known": bool(g("known", True)), "NOK": bool(g("nOK", True)), "Stored": bool(g("stored", False)), "POK": bool(g("pOK", True)),
        "SameRoot": bool(g("sameRoot", False)), "VcOK": bool(g("vcOK", False)),
        "OldSize": int(g("oldSize", 0)), "NS": int(g("nS", 0)), "PS": int(g("pS", 0)),
        "LenProof": min(int(g("len(cProof)", 0)), 8), "NsigNext": max(1, int(nsig_next or 1)), "NSigners": max(1, min(4, int(nsigners or 1))),
        "WoFail": bool(g("woFail", False)), "GlFail": bool(g("glFail", False)), "SetFail": bool(g("setFail", False)), "SignFail": bool(g("signFail", False)),
        "HonestProof": False,
    }


def bastion_model(m):
    cls = "accepted"
    for k, c in (("eNoSig", "nosig"), ("eOldSize", "oldsize"), ("eStale", "stale"), ("eRoot", "rootmismatch"), ("eProof", "badproof")):
        if m.get(k):
            cls = c
    return {"Class": cls}


def sumdb_model(m):
    return {"ToSize": int(m.get("toSize", 0)), "FromSize": max(1, int(m.get("fromSize", 1)))}


_SUMDB = ("internal/feeder/sumdb", "zz_verif_replay_test.go", "replay/sumdb_replay_test.go", "TestVerifReplaySumDB", sumdb_model)

_FEED = ("internal/feeder", "zz_verif_replay_test.go", "replay/feeder_replay_test.go", "TestVerifReplayFeeder", lambda m: {"any": True})

_DIST = ("internal/distribute/rest", "zz_verif_replay_test.go", "replay/distribute_replay_test.go", "TestVerifReplayDistribute", lambda m: {"any": True})

_READ = ("internal/http", "zz_verif_replay_test.go", "replay/http_replay_test.go", "TestVerifReplayReadAPI", lambda m: {"any": True})

_TILE = ("internal/client", "zz_verif_replay_test.go", "replay/sumdbclient_replay_test.go", "TestVerifReplayTilePath", lambda m: {"Offset": int(m.get("offset", 1000)) if isinstance(m.get("offset", 1000), int) and 0 <= m.get("offset", 1000) < 2**62 else 1000})

_SQL = ("internal/persistence/sql", "zz_verif_replay_test.go", "replay/sql_replay_test.go", "TestVerifReplaySQL", lambda m: {"any": True}, "verif")

_IM = ("internal/persistence/inmemory", "zz_verif_replay_test.go", "replay/inmemory_replay_test.go", "TestVerifReplayInMemory", lambda m: {"any": True}, "verif")

_CFG = ("omniwitness", "zz_verif_replay_test.go", "replay/aslogmap_replay_test.go", "TestVerifReplayAsLogMap", lambda m: {"any": True})

CONCRETISERS = {
    "omniwitness.LogConfig).AsLogMap": _CFG,
    "config.NewLog": _CFG,
    "inmemory.inMemoryPersistence).expectAndWrite": _IM,
    "inmemory.verifScenarioWrite": _IM,
    "inmemory.verifScenarioRead": _IM,
    "sql.verifScenarioWrite": _SQL,
    "sql.verifScenarioRefuse": _SQL,
    "sql.verifScenarioRead": _SQL,
    "sql.sqlLogPersistence).Logs": _SQL,
    "sql.getLatestCheckpoint": _SQL,
    "client.SumDBClient).tilePath": _TILE,
    "client.SumDBClient).TileData": _TILE,
    "client.SumDBClient).FullLeavesAtOffset": _TILE,
    "client.SumDBClient).PartialLeavesAtOffset": _TILE,
    "http.Server).getCheckpoint": _READ,
    "http.Server).getLogs": _READ,
    "http.httpForCode": _READ,
    "http.Server).RegisterHandlers": _READ,
    "http.Witness).GetLatestCheckpoint": _READ,
    "inmemory.inMemoryPersistence).Logs": _READ,
    "rest.Distributor).distributeForLog": _DIST,
    "rest.Distributor).DistributeOnce": _DIST,
    "rest.NewDistributor$1": _DIST,
    "rest.NewDistributor": _DIST,
    "feeder.submitToWitness$1": _FEED,
    "feeder.submitToWitness": _FEED,
    "feeder.FeedOnce": _FEED,
    "witness.Proof).Marshal": ("internal/witness", "zz_verif_replay_test.go", "replay/proof_replay_test.go", "TestVerifReplayProof", lambda m: {"K": int(m.get("gk", 0)) if isinstance(m.get("gk", 0), int) else 0}),
    "witness.Proof).Unmarshal": ("internal/witness", "zz_verif_replay_test.go", "replay/proof_replay_test.go", "TestVerifReplayProof", lambda m: {"K": int(m.get("gk", 0))}),
    "feedbastion.bastionClient).Update": ("cmd/feedbastion", "zz_verif_replay_test.go", "replay/feedbastion_replay_test.go", "TestVerifReplayFeedBastion", lambda m: {"any": True}),
    "bastion.readLine": ("internal/feeder/bastion", "zz_verif_replay_test.go", "replay/parsebody_replay_test.go", "TestVerifReplayParseBody", lambda m: {"any": True}),
    "bastion.parseBody": ("internal/feeder/bastion", "zz_verif_replay_test.go", "replay/parsebody_replay_test.go", "TestVerifReplayParseBody", lambda m: {"any": True}),
    "sumdb.FeedLog$1": _SUMDB,
    "sumdb.FeedLog$2": _SUMDB,
    "client.HTTPFetcher).GetData": _SUMDB,
    "client.NewSumDBWithContext": _SUMDB,
    "bastion.addHandler).handleUpdate": ("internal/feeder/bastion", "zz_verif_replay_test.go", "replay/bastion_replay_test.go", "TestVerifReplayBastion", bastion_model),
    "bastion.addHandler).ServeHTTP": ("internal/feeder/bastion", "zz_verif_replay_test.go", "replay/bastion_replay_test.go", "TestVerifReplayBastion", bastion_model),
    "witness.Witness).Update": ("internal/witness", "zz_verif_replay_test.go", "replay/update_replay_test.go", "TestVerifReplayUpdate", update_model),
}


def find_concretiser(fn):
    for suffix, c in CONCRETISERS.items():
        if fn.endswith(suffix):
            return c
    return None


def run_one(fn, model, repo, verif):
    c = find_concretiser(fn)
    if c is None:
        return None
    pkg_dir, vname, real, run, conv = c[:5]
    tags = c[5] if len(c) > 5 else None
    gm = conv(model)
    cmd, rc, out = go_test_overlay(repo, pkg_dir, vname, os.path.join(verif, real), run, {"VERIF_REPLAY_MODEL": json.dumps(gm)}, tags=tags)
    res = None
    for line in out.splitlines():
        if "REPLAY-RESULT " in line:
            try:
                res = json.loads(line.split("REPLAY-RESULT ", 1)[1])
            except Exception:
                pass
    if res is None and ("fatal error: concurrent map" in out or "WARNING: DATA RACE" in out):
        # the Go runtime killed the test binary: unsynchronised access to a map on the real code
        line = [l for l in out.splitlines() if "fatal error: concurrent map" in l or "DATA RACE" in l][0].strip()
        why = "the Go runtime aborted the real code under concurrent use: " + line
        res = {"realisable": True, "failed_clauses": {"C05.lock": why, "C05.cas": why}, "runtime_abort": line}
    return {"go_model": gm, "cmd": " ".join(cmd) + "   (env VERIF_REPLAY_MODEL=<go_model>)", "exit": rc, "result": res, "output_tail": out[-1500:]}


def try_replay(pid, fn, tag, failed_obligations, repo, verif):
    if find_concretiser(fn) is None:
        return {"confirmed": False, "why": "no concretiser for " + fn}
    tags = set(tag.split(","))
    # an untagged obligation (loop invariant, frame, callee precondition) supports the function's tagged clauses:
    # its failure is confirmed on the real code when some clause of this property fails there
    supporting = not any(re.match(r"C\d\d", t) for t in tags)
    attempts = []
    for o in (failed_obligations[:4] or [{"path": 0, "model": ""}]):
        model = parse_model(o.get("model", ""))
        r = run_one(fn, model, repo, verif)
        attempts.append({"path": o["path"], "model": model, "run": r})
        fc = (r and r["result"] and r["result"].get("realisable") and r["result"].get("failed_clauses")) or {}
        if tags & set(fc.keys()) or (supporting and any(k.startswith(pid) for k in fc)):
            return {"confirmed": True, "attempts": attempts, "failed_clauses_on_real_code": fc,
                    "via": "supporting obligation (%s): clauses of %s fail on the real code" % (tag, pid) if supporting and not (tags & set(fc.keys())) else "the failed clause itself fails on the real code"}
    return {"confirmed": False, "attempts": attempts}


def rerun(rec, repo, verif):
    rp = rec.get("replay") or {}
    for a in rp.get("attempts", []):
        r = run_one(rec["function"], a["model"], repo, verif)
        print(json.dumps(r, indent=1)[:3000])
        if r and r["result"] and set(rec["obligation"].split(",")) & set(r["result"].get("failed_clauses", {}).keys()):
            print("REPRODUCED on the real code")
            return 1
    print("not reproduced")
    return 0
