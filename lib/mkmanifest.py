#!/usr/bin/env python3
"""Regenerates /verif/MANIFEST.json from lib/propmap.py (checks) and lib/notapplicable.py."""
import json, os, sys
sys.path.insert(0, os.path.dirname(os.path.abspath(__file__)))
from propmap import PROPS, MANIFEST_TEXT, NOT_APPLICABLE, HOOK_COMMITS

props = [json.loads(l)["id"] for l in open("/verif/properties.jsonl")]
checks = []
for pid in props:
    if pid not in PROPS:
        continue
    t = MANIFEST_TEXT[pid]
    checks.append({
        "property_id": pid,
        "quick_cmd": "./check %s --tier quick" % pid,
        "thorough_cmd": "./check %s --tier thorough" % pid,
        "evidence_file": "/verif/evidence/%s.json" % pid,
        "replay_cmd_template": "./check --replay {path}",
        "engine": "govc",
        "level_claimed": {"category": "proof", "text": t["level"], "design_ref": t.get("design", "DESIGN.md section 5 " + pid)},
        "level_note": t["note"],
        "technique": t.get("technique", "contract-based deductive verification: weakest-precondition style VCs generated path-wise from go/ssa of the real functions, contracts as //@ comments, discharged by z3/cvc5"),
    })
na = [{"property_id": p, "reason": NOT_APPLICABLE.get(p, "no check registered yet: the contracts for this property are not built (see DESIGN.md)")} for p in props if p not in PROPS]
m = {
    "version": 1,
    "setup_cmd": "cd /verif/govc && GOFLAGS=-mod=mod GOPROXY=off GOSUMDB=off GOTOOLCHAIN=local go build -o ../bin/govc .",
    "hooks": {
        "guard": "verif",
        "enable": "go build tag `verif`: govc loads /repo with -tags=verif, which adds the comment-only contract files zz_contracts_verif.go (and harness files *_verif.go); replays inject tests with `go test -overlay` and write nothing into /repo",
        "baseline_off_cmd": "cd /repo && GOFLAGS=-mod=mod GOPROXY=off GOSUMDB=off go build ./... && GOFLAGS=-mod=mod GOPROXY=off GOSUMDB=off go test -vet=off -count=1 ./...",
        "source_commits": HOOK_COMMITS,
        "add_only": True,
    },
    "engines": [{"name": "govc", "path": "/verif/govc", "serves_properties": sorted(PROPS.keys()),
                 "kind_free_text": "deductive verifier for Go built here: contracts (requires/ensures/invariant/decreases/modifies, ghost state) -> path-wise verification conditions over go/ssa with bit-precise integers and a Boogie-style heap -> z3 5.1 / z3 4.8 / cvc5; counterexamples projected on the contract vocabulary and replayed on the real code"}],
    "checks": checks,
    "notes": "Every check regenerates its verification conditions from /repo's current working tree. Known findings (genuine defects recorded, not repaired) are in /verif/known_findings.jsonl. DESIGN.md explains the approach, assumptions and what each check catches.",
    "not_applicable": na,
}
# written to a temporary file and renamed: MANIFEST.json is valid at every instant, also for a reader that opens it meanwhile
import os
with open("/verif/MANIFEST.json.tmp", "w") as f:
    json.dump(m, f, indent=1)
os.replace("/verif/MANIFEST.json.tmp", "/verif/MANIFEST.json")
print("checks:", [c["property_id"] for c in checks], "n/a:", [x["property_id"] for x in na])
