"""Property -> functions under contract / obligation tags / declared assumptions."""

W = "github.com/transparency-dev/witness"
UPDATE = "(*%s/internal/witness.Witness).Update" % W

TRUSTED_BASE = [
    "govc itself (SSA semantics, heap model, contract parser): unverified; mitigated by vacuity/reachability checks on every run and the must-fail mutant corpus (selftest)",
    "golang.org/x/tools go/ssa v0.29.0 faithfully represents the source of /repo's working tree",
    "SMT solvers z3 5.1.0 (z3-new), z3 4.8.12, cvc5 1.0.3 are sound",
    "amd64: int is 64 bits; program integers are bit-vectors (never mathematical)",
    "library callees do not mutate []byte arguments; klog calls have no effect on program state",
]

A_NOTE = "assumed contracts of golang.org/x/mod/sumdb/note (Open/Sign) and formats/log.ParseCheckpoint as stated in contracts/20_deps.spec (DESIGN A.7): signature cryptography is not verified"
A_STORE = "storage interface contract (contracts/20_deps.spec) in its sequential reading; implementations are checked against it separately (C05/C06/C16)"
A_MERKLE = "RFC 6962 soundness of merkle/proof.VerifyConsistency (vc => consistent) and SHA-256 collision resistance: assumed, not provable by SMT"
A_VCPREFIX = "switch prefix of proof.RootFromConsistencyProof (equal sizes, size1==0, empty proof, size2<size1) stated as assumed clauses of VerifyConsistency's contract, read from the pinned source"

GETCP = "(*%s/internal/witness.Witness).GetCheckpoint" % W

BA = "%s/internal/feeder/bastion" % W
FD = "%s/internal/feeder" % W
CF = "%s/internal/config" % W
HT = "%s/internal/http" % W
CL = "%s/client/http" % W
RS = "%s/internal/distribute/rest" % W
OW = "%s/omniwitness" % W
IM = "%s/internal/persistence/inmemory" % W
SQ = "%s/internal/persistence/sql" % W
SQL_FUNCS = [SQ + ".verifScenarioWrite", SQ + ".verifScenarioRefuse", SQ + ".verifScenarioRead", SQ + ".sqlLogPersistence).Logs"]
IM_FUNCS = [IM + ".inMemoryPersistence).expectAndWrite", IM + ".verifScenarioWrite", IM + ".verifScenarioRead"]
A_SQL = "assumed model of database/sql + go-sqlite3 (contracts/45_sql.spec): Exec of the known upsert only changes the transaction's buffer, Commit atomically and durably applies it (or, with an error, applies all or nothing), Rollback/crash discards it, Commit/Rollback/Rows.Close release the connection; SQLite, fsync and the cgo driver are not exercised"
ASLOGMAP = "(%s/omniwitness.LogConfig).AsLogMap" % W
WNEW = "%s/internal/witness.New" % W
INITM = "%s/internal/witness.initMetrics$1" % W

CLI = "%s/internal/client" % W
C19_FUNCS = [UPDATE, GETCP, BA + ".addHandler).ServeHTTP", BA + ".addHandler).handleUpdate", FD + ".submitToWitness$1", FD + ".FeedOnce",
             RS + ".Distributor).distributeForLog", RS + ".Distributor).DistributeOnce", HT + ".Server).getCheckpoint", HT + ".Server).getLogs",
             CLI + ".dataToLeaves", CLI + ".SumDBClient).tilePath", CLI + ".SumDBClient).TileData", CLI + ".SumDBClient).ParseCheckpointNote",
             CLI + ".SumDBClient).FullLeavesAtOffset", CLI + ".SumDBClient).PartialLeavesAtOffset",
             FD + "/sumdb.FeedLog$1", FD + "/sumdb.FeedLog$2", FD + "/sumdb.tileReader).ReadTiles",
             FD + "/pixelbt.FeedLog$1", FD + "/pixelbt.FeedLog$2", FD + "/pixelbt.tileReader).ReadTiles", FD + "/pixelbt.fetch", FD + "/rekor.getJSON",
             "golang.org/x/mod/sumdb/tlog.maxpow2"]

PROPS = {
    "C01": {"runs": [{"funcs": [UPDATE] + IM_FUNCS, "tags": ["C01", "C05.cas", "C05.wr", "C05.snap"]}], "assumptions": [A_NOTE, A_STORE, A_MERKLE, A_VCPREFIX,
            "the induction over histories is the pure lemma history_step (discharged by SMT) applied per commit; that commits of different calls are applied in sequence is the storage contract"],
            "bounded": [], "not_decided": ["agreement of proof.VerifyConsistency with RFC 6962 ground truth (Merkle mathematics): assumed"]},
    "C02": {"funcs": [UPDATE, ASLOGMAP, WNEW], "tags": ["C02"], "assumptions": [A_NOTE, A_STORE, "formats/note.NewVerifier and log.ID are functions of their argument (assumed contracts); omniwitness.Main passing AsLogMap's result to witness.New is read, not verified (Main uses goroutines: outside the subset)"]},
    "C03": {"runs": [{"funcs": [UPDATE, GETCP] + IM_FUNCS + SQL_FUNCS, "tags": ["C03"]}], "assumptions": [A_NOTE, A_STORE, A_SQL]},
    "C06": {"runs": [{"funcs": SQL_FUNCS + [UPDATE], "tags": ["C06", "C04.a", "C04.b"]}], "assumptions": [A_SQL, A_NOTE,
            "the crash points of C06 are the database-driver call boundaries; a crash inside Commit is covered only by the assumed atomicity of Commit",
            "the scenario harness internal/persistence/sql/harness_verif.go has the same storage-call shape as Witness.Update (WriteOps; defer Close; GetLatest; Set): that Update has this shape is proved by C07.p1/p2"],
            "not_decided": ["SQLite's own crash safety, fsync behaviour, the cgo driver (external, assumed)"]},
    "C04": {"funcs": [UPDATE, GETCP], "tags": ["C04"], "assumptions": [A_NOTE, A_STORE, "the cosignature/v1 signer stamps time.Now() when note.Sign calls it (formats/note/note_cosigv1.go): the timestamp window follows from 'the Sign call happened inside this Update call' (proved)"]},
    "C05": {"runs": [
                {"funcs": [IM + ".inMemoryPersistence).expectAndWrite", IM + ".verifScenarioWrite", IM + ".verifScenarioRead"], "tags": ["C05"]},
                {"funcs": [UPDATE], "tags": ["C05"], "mode": "interference", "nolemmas": True}],
            "assumptions": [A_NOTE, "sync.RWMutex gives mutual exclusion (its contract records only which locks the calling thread holds); the Go memory model",
                            "SQL store: transaction isolation of SQLite with the single-connection pool is assumed; nothing about it is proved here",
                            "the last step 'every storage operation atomic + compare-and-set on a validated snapshot => linearizable' is a paper argument (DESIGN C05)"],
            "not_decided": ["interleavings finer than storage-operation granularity; SQL isolation; randomized race-detector schedules"]},
    "C07": {"runs": [{"funcs": [UPDATE] + SQL_FUNCS + IM_FUNCS, "tags": ["C07"]}], "assumptions": [A_NOTE, A_STORE, A_SQL]},
    "C08": {"funcs": [UPDATE], "tags": ["C08"], "assumptions": [A_NOTE, A_STORE, A_VCPREFIX]},
    "C09": {"funcs": [UPDATE], "tags": ["C09"], "assumptions": [A_NOTE, A_STORE, A_VCPREFIX]},
    "C10": {"runs": [{"funcs": [BA + ".addHandler).handleUpdate", BA + ".addHandler).ServeHTTP", BA + ".parseBody", OW + ".witnessAdapter).Update", UPDATE], "tags": ["C10"]}],
            "assumptions": [A_NOTE, A_STORE, "net/http ResponseWriter, rate.Limiter, strings.SplitN contracts (contracts/55_http.spec)",
                            "the interface contract of feeder.Witness.Update is proved for omniwitness.witnessAdapter from the proved contract of (*Witness).Update under the adapter's configuration preconditions (store, published verifier, origins); omniwitness.Main establishing that configuration is read, not verified",
                            "TLS 1.3 / HTTP-2 reverse connection, http.MaxBytesHandler and the rate limiter's arithmetic are not covered"]},
    "C12": {"runs": [{"funcs": [UPDATE, ASLOGMAP, WNEW, CF + ".NewLog", BA + ".addHandler).ServeHTTP", BA + ".addHandler).handleUpdate", RS + ".Distributor).distributeForLog",
                               FD + "/sumdb.FeedLog", FD + "/pixelbt.FeedLog", FD + "/rekor.FeedLog", FD + "/serverless.FeedLog", FD + "/tiles.FeedLog",
                               OW + ".witnessAdapter).Update"] + IM_FUNCS + [SQ + ".verifScenarioWrite"], "tags": ["C12"]}],
            "assumptions": [A_NOTE, A_STORE, A_SQL, "log.ID is a function of the origin (uninterpreted ID(.)); formats/note.NewVerifier is a function of the key string",
                            "bastion.FeedBastion filling its table with h.logs[l.ID] = l and omniwitness.Main passing the same []config.Log to feeders, bastion and distributor use goroutines/select and are read, not verified",
                            "the HTTP read API passes the path variable through unchanged (C16)"]},
    "C13": {"runs": [{"funcs": [FD + ".submitToWitness$1", FD + ".submitToWitness", FD + ".FeedOnce", OW + ".witnessAdapter).Update", OW + ".witnessAdapter).GetLatestCheckpoint"], "tags": ["C13"]}],
            "assumptions": [A_NOTE, "contract of github.com/cenkalti/backoff/v4.Retry: it runs the operation some number of times and returns nil iff the last run returned nil (modelled as: earlier attempts havoc what the operation may modify, then one final attempt by its contract); that the retry loop ends is not shown",
                            "field contracts of FeedOpts.FetchCheckpoint / FetchProof (what each feeder stores there is not verified here)"],
            "not_decided": ["'retries and succeeds once failures clear' and 'stops when its context ends' (liveness of the retry loop in a dependency)"]},
    "C15": {"runs": [{"funcs": [RS + ".Distributor).distributeForLog", RS + ".Distributor).DistributeOnce"], "tags": ["C15"]}],
            "assumptions": [A_NOTE, "net/http client, net/url, bytes.Reader contracts (contracts/70_distribute.spec): a request carries the method, URL string and body it was built with; redirects are visible through resp.Request.Method",
                            "note.Open with verifiers {log, witness}: the number of verified signatures is a function of (bytes, log verifier, witness verifier)"]},
    "C16": {"runs": [{"funcs": [HT + ".Server).getCheckpoint", HT + ".Server).getLogs", HT + ".httpForCode", CL + ".Witness).GetLatestCheckpoint", GETCP, OW + ".witnessAdapter).GetLatestCheckpoint",
                               IM + ".inMemoryPersistence).Logs", IM + ".verifScenarioRead", SQ + ".verifScenarioRead", UPDATE], "tags": ["C16", "C03.a"]}],
            "assumptions": [A_STORE, A_SQL, "gorilla/mux routing: the handler sees the path variable 'logid' of the matched route, and the pattern [a-zA-Z0-9-]+ admits the hex IDs produced by log.ID (assumed)",
                            "json.Marshal of a []string renders exactly its elements (jsonStrs); io.ReadAll returns the response body; net/http client contracts",
                            "SQL Logs(): the SELECT returns the logID column of every row (assumed; only 'the cursor is closed on every path' is proved)"]},
    "C19": {"runs": [{"funcs": C19_FUNCS, "tags": ["safety", "termination", "pre", "C19"], "safety": True, "nolemmas": True}],
            "assumptions": ["the standard library, net/http, encoding/json, yaml, base64, bufio, note.Open, backoff and the tlog functions other than maxpow2 neither panic nor hang on any input (assumed); network timeouts and the 16 KiB request cap belong to the HTTP stack",
                            "tlog.ProveTree's precondition (tree size <= 2^62) is derived from the verified termination condition of tlog.maxpow2 (dependency source from the module cache); that treeProofIndex/treeProof call maxpow2 only with arguments <= t is read, not verified",
                            "preconditions on handler/feeder state (non-nil collaborators, initialised metric counters, sumdb checkpoints carry 32-byte hashes because tlog.ParseTree accepted them, tiles requested by tlog have the reader's height) are stated in the contracts and established by the constructors (read, not verified)",
                            "out-of-memory, stack overflow and the recover path are not modelled; fuzzing is not part of this technique"],
            "not_decided": ["timeouts; panics inside dependencies; the serverless/tiles feeders' proof builders (external library)"]},
    "C20": {"funcs": [UPDATE, INITM], "tags": ["C20"], "assumptions": [A_NOTE, A_STORE, A_VCPREFIX, "monitoring.Counter.Inc adds one to the counter for its label (interface contract)"]},
}

HOOK_COMMITS = ["7296b73", "af7d29a", "308f21e", "b6239f6", "c655fca", "35e6d9a", "634df6a", "1ee2140", "3f24477", "316cd06", "2c086ba", "34053d6"]

NOT_APPLICABLE = {
    "C14": "whole-system liveness and timing over goroutines, tickers, HTTP servers and stub log servers ('within a bounded number of poll intervals', across restarts): no per-function contract expresses 'eventually catches up', and omniwitness.Main (go/select/errgroup) is outside the generator's subset. Its safety ingredients are decided by C01, C12, C13, C16.",
    "C17": "a statement about two concrete data files (logs.yaml, logs_test.yaml), not about code for all inputs: deciding it means evaluating yaml.Unmarshal, key parsing and url.Parse on those constants, which an SMT solver cannot do and running them is a test (a different technique).",
}

_UPD = "the real (*Witness).Update (helpers parse/signChkpt inlined), every path enumerated (43 acyclic paths incl. inlined helpers; 23 reachable), all inputs, 64-bit sizes"
MANIFEST_TEXT = {
    "C01": {"level": "Invariant Chain(history) preserved by every commit: (a) Update's postcondition: at most one commit per call, only on success, and if a checkpoint was stored then it parsed under this log's key/origin, sizes do not decrease, equal size implies equal root, growth implies proof.VerifyConsistency accepted exactly (stored size, new size, proof, stored root, new root) -- verified against the value read through the same write handle; (b) the history lemma (pairwise consistency of the whole history follows from the relation to the last element) and the link lemma are discharged by SMT: this is the induction over all histories; (c) call-graph obligation: only Update calls WriteOps/Set in the non-test program.",
            "note": "RFC 6962 soundness of VerifyConsistency and transitivity of tree consistency are hypotheses (Merkle mathematics / SHA-256, not SMT-provable). Store implementations: see C05/C06."},
    "C02": {"level": "Postconditions of Update (accepted => log ID known and the submitted bytes parse under exactly that ID's configured verifier and origin; unknown ID => (nil, ErrUnknownLog) with no storage call, no signature, no counter; the committed text is the submitted text) for an arbitrary symbolic configuration map (any number of logs, shared keys allowed), plus the loop proof of LogConfig.AsLogMap (every configured log is filed under ID(origin) with the verifier built from its own key; every entry's key is the ID of its own origin) and witness.New storing the map unchanged.",
            "note": "signature verification itself is the assumed contract of log.ParseCheckpoint/note.Open; 'no entry without a configured log' is implied by the map starting empty but is not stated as an obligation (it needs an existential invariant that made the solvers unstable)."},
    "C03": {"level": "Postcondition + frame of Update and GetCheckpoint over the ghost abstract store: on every path with err != nil the whole store map (all logs, key set) and the commit counter are unchanged, and the returned bytes are nil or exactly the stored checkpoint; a signature produced on a refused path is never returned. Path-complete over " + _UPD + ".",
            "note": "storage interface contract (sequential reading) and note.Sign/ParseCheckpoint contracts assumed; implementations of the store checked separately."},
    "C04": {"level": "Postconditions of Update/GetCheckpoint: on every accept path the result is the value of a note.Sign call made during this call on the note opened from the submitted bytes (so a refresh re-signs), it is what was committed, and a following read returns it. One clause (the result re-opens under the log key) fails when the cosigned note exceeds 100 signature lines: recorded as known finding F1 and proved outside that region.",
            "note": "what note.Sign puts into the note (text kept, one line per signer, timestamp from time.Now()) is the assumed contract of x/mod sumdb/note and formats/note; cryptography not verified."},
    "C05": {"runs": [
                {"funcs": [IM + ".inMemoryPersistence).expectAndWrite", IM + ".verifScenarioWrite", IM + ".verifScenarioRead"], "tags": ["C05"]},
                {"funcs": [UPDATE], "tags": ["C05"], "mode": "interference", "nolemmas": True}],
            "assumptions": [A_NOTE, "sync.RWMutex gives mutual exclusion (its contract records only which locks the calling thread holds); the Go memory model",
                            "SQL store: transaction isolation of SQLite with the single-connection pool is assumed; nothing about it is proved here",
                            "the last step 'every storage operation atomic + compare-and-set on a validated snapshot => linearizable' is a paper argument (DESIGN C05)"],
            "not_decided": ["interleavings finer than storage-operation granularity; SQL isolation; randomized race-detector schedules"]},
    "C05": {"level": "Thread-modular proof with the weakest rely (other threads may change the store arbitrarily between any two storage operations), covering every interleaving at storage-operation granularity for any number of threads: (1) lock discipline of the in-memory store: every access to the checkpoints map happens with mu held (exclusively for writes), every path releases what it took; (2) expectAndWrite is a compare-and-set on (absent | present with deeply equal bytes) that writes exactly its key; (3) harness scenarios (WriteOps; GetLatest; Set / ReadOps; GetLatest with interference between all operations): Set succeeds only if at that instant the store still holds the snapshot the handle handed out, then writes exactly that entry; (4) Update re-verified against the interference reading of the storage contract: accepted only if at the commit instant the store held exactly the value the decision was made against, that value justifies the step, the commit wrote the returned bytes, refusals commit nothing.",
            "note": "the step from (1)-(4) to linearizability is a paper argument; SQL isolation assumed; goroutine scheduling and the memory model are not modelled."},
    "C06": {"level": "Crash invariant asserted at every database-driver call boundary (after Begin, QueryRow, Row.Err, Row.Scan, Exec, Commit, Rollback) of the SQL write scenario -- the real sqlLogPersistence.WriteOps, writer.GetLatest, writer.Set, writer.Close composed as Update composes them: at each boundary the durable row of this log is the old one or the new one and every other log's row is untouched; plus postconditions: Set returns nil only if Commit returned nil and then the new value is durable; every write goes through the transaction obtained in WriteOps (no statement outside it); at most one Exec and one Commit; no commit => no durable change. Update acknowledges only after Set returned nil and the written value is the cosigned result (C04.a/b re-checked here).",
            "note": "a proof about how the code uses transactions against an ASSUMED model of database/sql + SQLite (atomic durable Commit); the database itself cannot be reached by this technique."},
    "C07": {"level": "Postconditions of Update under a faulty-store interface contract in which every storage call's error is an unconstrained symbolic value: success only after a successful Set whose value a following read returns; a failed non-NotFound read never leads to sign/Set; a failed Set gives (nil, err); the write handle is closed exactly once on every path (defers are executed symbolically). All fault patterns are covered by the universal quantification over the error values.",
            "note": "status.Code contract assumed. SQL side (against the assumed database/sql model): in every outcome of the write/refuse/read scenarios and of Logs() the number of open transactions/cursors returns to its entry value (Close always rolls back; a failed Begin returns no handle; rows are closed on every path); NotFound is reported iff Scan returned sql.ErrNoRows, every other driver error is passed through."},
    "C08": {"level": "Representation invariant (what is committed re-opens under the log's key and origin) and 'honest step => accepted' as postconditions of Update for all sizes 0..2^64-1. Both fail on the real code in a precisely delimited region (F1: more than 100 signature lines after cosigning; F2: stored size 0 < submitted size); the counterexamples were replayed on the real witness, are recorded as known findings, and the obligations are proved outside the regions.",
            "note": "note.Open/Sign signature-count contract and the switch prefix of proof.RootFromConsistencyProof are assumed clauses read from the pinned dependency sources."},
    "C09": {"level": "Update's postcondition is the ordered decision table: one ensures clause per row with the spec-level first-match verdict computed from the entry state (known log, signature verdict, abstract store content, three 64-bit sizes, root equality, proof emptiness, vc verdict); sentinel errors compared by identity; path-complete, all of uint64^3.",
            "note": "the verdict of the Merkle hash chaining is the uninterpreted function vc(...); agreement with an independent RFC 6962 verifier is not decided here. The defect found by this check (F3) was repaired by commit eed264f."},
    "C10": {"level": "Postconditions of (*addHandler).handleUpdate against the PROVED contract of the real witness (carried through the interface contract of feeder.Witness.Update, which omniwitness.witnessAdapter.Update is proved to refine from (*Witness).Update's contract -- the composition the test suite never exercises): the request reaches the witness exactly once and unchanged; accepted => 200 and the body is '— name base64\\n' of the first signature of the returned note verified under the witness verifier, over the submitted text; old size too large => 400; stale => 409 with Content-Type text/x.tlog.size and the decimal size of the stored checkpoint; root mismatch => 409; bad proof => 422; bad signature => 403.",
            "note": "ServeHTTP is verified too (17 blocks, all paths): exactly one status line out of {200,400,403,404,409,422,429,500}; over the rate => 429 without reading the body or calling the witness; the witness is asked at most once, for ID(first line of the checkpoint), only for a log in the handler's table; the status, Content-Type and body follow the witness's verdict. parseBody is used through a structural contract here (its text-format contract is C11). TLS/HTTP-2 leg, MaxBytesHandler and the limiter's arithmetic are not covered. F1 (over 100 signature lines) is carved out as a known finding; F4 was repaired."},
    "C12": {"level": "Isolation: Update's frame over the abstract store as a quantified postcondition (for every persistence object and key other than (this witness's store, logID) presence and bytes are unchanged; a commit is to exactly (store, logID) with a text that parsed under that ID's origin and key), the same for the in-memory map (only key logID written) and the SQL scenario (crash invariant: every other row untouched, upsert parameterised by the handle's log ID), the call-graph obligation that only Update writes, and the commutation lemma for updates of different IDs. Identity: 'key == ID(origin)' proved at every site that makes or uses one: LogConfig.AsLogMap (loop proof, incl. refusal of two configured logs that share an ID), config.NewLog, bastion ServeHTTP (ID of the first line; only logs of its table), handleUpdate, distributeForLog (URL and witness query use l.ID), the five feeders' FeedLog (feed cycle started with exactly l.ID, l.Origin, l.Verifier and the witness handed in), witness.New (map stored unchanged).",
            "note": "FeedBastion and omniwitness.Main (goroutines/select) are read, not verified."},
    "C13": {"level": "Trace postconditions (ghost call records of the witness interface and of FetchProof) of one attempt of the retry loop (the closure submitToWitness$1, verified on its own with its captured variables as pointer parameters), of submitToWitness and of FeedOnce: exactly one GetLatestCheckpoint and at most one Update per attempt, for this log's ID; an Update only after the witness answered with a checkpoint or 'none'; old size == size of exactly that answer (0 if none), which verified under the log's key and origin; proof empty for a refresh, otherwise exactly FetchProof(witness checkpoint -> submitted checkpoint); no Update and a permanent error when the witness is ahead; every failing step => non-permanent error and no later Update; success returns the bytes the witness returned; FeedOnce sends nothing unless the fetched checkpoint verifies and submits the fetched bytes unchanged. The adapter between feeder and witness is proved to forward faithfully.",
            "note": "safety part only; liveness of backoff.Retry is not decided."},
    "C15": {"level": "Trace postconditions of distributeForLog (all 10 return paths): the witness is asked once for l.ID; at most one request; if one is sent it is a PUT of exactly the bytes the witness returned, to baseURL + /distributor/v0/logs/<l.ID>/byWitness/<PathEscape(witness key name)>/checkpoint, and only after ParseCheckpoint(bytes, l.Origin, l.Verifier, witness verifier) succeeded with exactly two verified signatures; any failing step (witness error, parse, URL, request, transport, method rewritten by a redirect, body read, status != 200) => non-nil error; success counter moves iff success. DistributeOnce: loop invariant -- every configured log is attempted, numErrs counts the failures, result non-nil iff some log failed.",
            "note": "net/http and net/url contracts assumed; 'two verified signatures means the log's and the witness's' is note.Open's assumed contract."},
    "C16": {"level": "Postconditions of the two read handlers, of the witness's GetCheckpoint, of the adapter and of the bundled HTTP client, over the abstract store: getCheckpoint answers 200 with exactly the stored bytes of exactly the log named by the route variable, 404 when the witness holds none (httpForCode proved as a table), and never writes; getLogs' body is the JSON of the list the store returned, and that list is exactly the set of IDs having a checkpoint -- proved for the in-memory store's Logs() by a loop invariant over map iteration (every listed ID has a checkpoint, every ID with a checkpoint is listed, no duplicates); the client turns 404 into exactly os.ErrNotExist (identity), 200 into the body bytes, anything else into an error; 'a refused first submission creates no entry' is Update's C03.a (store unchanged on refusal, key set included).",
            "note": "mux routing, json.Marshal, the SQL SELECT and the net/http client are assumed contracts."},
    "C19": {"level": "Zero-annotation panic-freedom sweep plus termination: for every instruction that can panic (nil dereference, nil interface / function call, index and slice bounds, slice-to-array conversion, division by zero, negative shift count, nil-map write, make with a bad length, explicit panic) in the functions that touch network input, an obligation that it cannot (given the function's stated preconditions), with machine integers bit-precise; every loop has a `decreases` variant proved to fall and stay non-negative; callee preconditions are obligations at each call -- one of them derived by VERIFYING a dependency from its source: tlog.maxpow2 terminates iff n <= 2^62. Plus ServeHTTP's 'exactly one status line from the documented set' (C10.one).",
            "note": "library callees are assumed not to panic or hang; see assumptions. The defect found here (F5: tree sizes above 2^62 reach tlog.ProveTree) was replayed on the real sumdb feeder."},
    "C20": {"level": "Ghost-counter postcondition of Update: per call, each of the four counters moves for label logID exactly as the spec-level verdict prescribes and no other (counter, label) moves (frame, quantified). Histories are sums of per-call deltas.",
            "note": "Counter.Inc adds one for its label (interface contract); the four counters are distinct non-nil objects (precondition, established by initMetrics with a factory returning fresh counters: not yet proved)."},
}
