//go:build verif

package inmemory

// Replay for the in-memory store obligations (C05, C03.im, C12.im, C16.im) on the REAL code.
//
// Part 1 (deterministic): the verified scenario functions of harness_verif.go are run with a competing writer
// scheduled at each of their interference points through verifInterfereHook, and the scenario contracts are
// evaluated in executable form: a Set succeeds only if the store still holds what this handle's GetLatest
// returned; it then writes exactly this log's entry; a failed Set changes nothing; reads return what is stored.
//
// Part 2 (stress): interleavings INSIDE one storage operation cannot be scheduled from outside, so the
// compare-and-set of expectAndWrite is hammered by concurrent read-increment-write loops on one log: if two writers
// that read the same value can both succeed, increments are lost and the final counter is smaller than the number
// of successful Sets.  A failure here is a real lost update on the real code; a pass proves nothing (and is not
// counted as anything).
// Injected with `go test -tags verif -overlay`.  Output: one line `REPLAY-RESULT {json}`.

import (
	"bytes"
	"encoding/json"
	"fmt"
	"os"
	"runtime"
	"strconv"
	"sync"
	"sync/atomic"
	"testing"
	"time"

	"google.golang.org/grpc/codes"
	"google.golang.org/grpc/status"
)

func TestVerifReplayInMemory(t *testing.T) {
	if os.Getenv("VERIF_REPLAY_MODEL") == "" {
		t.Skip("no model")
	}
	failed := map[string]string{}
	fail := func(tag, why string) {
		if _, dup := failed[tag]; !dup {
			failed[tag] = why
		}
	}
	defer func() { verifInterfereHook = nil }()
	const id, other = "log-A", "log-B"
	get := func(p *inMemoryPersistence, k string) (bool, []byte) {
		p.mu.RLock()
		defer p.mu.RUnlock()
		c, ok := p.checkpoints[k]
		return ok, c.rawChkpt
	}
	runs := 0
	for _, hasOld := range []bool{false, true} {
		// competing writer at interference point `at` of the write scenario (1: before WriteOps, 2: before GetLatest,
		// 3: between GetLatest and Set; 0: none)
		for at := 0; at <= 3; at++ {
			runs++
			p := NewPersistence().(*inMemoryPersistence)
			p.checkpoints[other] = checkpointState{rawChkpt: []byte("other")}
			if hasOld {
				p.checkpoints[id] = checkpointState{rawChkpt: []byte("old")}
			}
			n := 0
			var midHas bool
			var midVal []byte
			var hook func(q *inMemoryPersistence)
			hook = func(q *inMemoryPersistence) {
				n++
				if n == at {
					verifInterfereHook = nil
					w, _ := q.WriteOps(id)
					_, _ = w.GetLatest()
					if err := w.Set([]byte("competitor")); err != nil {
						t.Fatalf("competing writer failed: %v", err)
					}
					w.Close()
					verifInterfereHook = hook
				}
				if n == 3 { // the last interference point: what the store holds when Set is attempted
					midHas, midVal = get(q, id)
				}
			}
			verifInterfereHook = hook
			seen, gerr, serr := verifScenarioWrite(p, id, []byte("new"))
			verifInterfereHook = nil
			name := fmt.Sprintf("write/old=%v/competitor@%d", hasOld, at)
			has, val := get(p, id)
			ohas, oval := get(p, other)
			if serr == nil {
				if gerr == nil && !(midHas && bytes.Equal(midVal, seen)) {
					fail("C05.snap", fmt.Sprintf("%s: Set succeeded although the store held %q (present=%v) and the handle had handed out %q: an update is lost", name, midVal, midHas, seen))
				}
				if gerr != nil && midHas {
					fail("C05.snap", fmt.Sprintf("%s: Set succeeded after NotFound although the store meanwhile held %q", name, midVal))
				}
				if !has || !bytes.Equal(val, []byte("new")) {
					fail("C05.eff", fmt.Sprintf("%s: Set succeeded but the store holds present=%v %q", name, has, val))
				}
			} else if has != midHas || !bytes.Equal(val, midVal) {
				fail("C05.eff", fmt.Sprintf("%s: Set failed (%v) but the store changed from %q to %q", name, serr, midVal, val))
				fail("C03.im", fmt.Sprintf("%s: a failed Set changed the store", name))
			}
			if at >= 2 && serr == nil {
				fail("C05.cas", fmt.Sprintf("%s: a writer committed between this handle's GetLatest and Set, and Set still succeeded", name))
			}
			if !ohas || !bytes.Equal(oval, []byte("other")) {
				fail("C12.im", fmt.Sprintf("%s: another log's entry changed", name))
				fail("C05.eff", fmt.Sprintf("%s: another log's entry changed", name))
			}
			if gerr != nil && (status.Code(gerr) != codes.NotFound || seen != nil) {
				fail("C05.nf", fmt.Sprintf("%s: GetLatest failed with %v / %q", name, gerr, seen))
			}
			// no lock is left held: a further operation must not block
			done := make(chan struct{})
			go func() { w, _ := p.WriteOps(id); _, _ = w.GetLatest(); w.Close(); close(done) }()
			select {
			case <-done:
			case <-time.After(2 * time.Second):
				fail("C05.lock", fmt.Sprintf("%s: the store is wedged after the operation (a lock is still held)", name))
			}
		}
		// read scenario
		p := NewPersistence().(*inMemoryPersistence)
		if hasOld {
			p.checkpoints[id] = checkpointState{rawChkpt: []byte("old")}
		}
		seen, gerr := verifScenarioRead(p, id)
		if hasOld && (gerr != nil || !bytes.Equal(seen, []byte("old"))) {
			fail("C05.rd", fmt.Sprintf("read of a stored checkpoint = (%q, %v)", seen, gerr))
			fail("C16.im", fmt.Sprintf("read of a stored checkpoint = (%q, %v)", seen, gerr))
		}
		if !hasOld && (gerr == nil || status.Code(gerr) != codes.NotFound) {
			fail("C05.rd", fmt.Sprintf("read of an absent checkpoint = (%q, %v)", seen, gerr))
			fail("C16.im", fmt.Sprintf("read of an absent checkpoint = (%q, %v)", seen, gerr))
		}
	}

	// Part 2: stress
	p := NewPersistence().(*inMemoryPersistence)
	p.checkpoints[id] = checkpointState{rawChkpt: []byte("0")}
	var succ int64
	var wg sync.WaitGroup
	deadline := time.Now().Add(1500 * time.Millisecond)
	workers := 2 * runtime.GOMAXPROCS(0)
	for g := 0; g < workers; g++ {
		wg.Add(1)
		go func() {
			defer wg.Done()
			for i := 0; time.Now().Before(deadline) && i < 200000; i++ {
				w, _ := p.WriteOps(id)
				cur, err := w.GetLatest()
				if err == nil {
					v, _ := strconv.Atoi(string(cur))
					if w.Set([]byte(strconv.Itoa(v+1))) == nil {
						atomic.AddInt64(&succ, 1)
					}
				}
				w.Close()
				runtime.Gosched()
			}
		}()
	}
	wg.Wait()
	_, fin := get(p, id)
	final, _ := strconv.Atoi(string(fin))
	if int64(final) != succ {
		why := fmt.Sprintf("stress: %d read-increment-write operations reported success but the counter stands at %d: %d updates were lost (two writers that read the same checkpoint both committed)", succ, final, succ-int64(final))
		fail("C05.cas", why)
		fail("C05.snap", why)
		fail("C05.wr", why)
	}
	out, _ := json.Marshal(map[string]interface{}{"realisable": true, "runs": runs, "stress_successes": succ, "stress_final": final, "failed_clauses": failed})
	t.Logf("REPLAY-RESULT %s", out)
}
