package rest

// Replay for the distributor obligations (C15) on the REAL code: DistributeOnce runs against a stub witness and an
// httptest distributor over a matrix of witness answers x distributor answers; the clauses of the contract are
// evaluated on what was actually sent.  Injected with `go test -overlay`.  Output: `REPLAY-RESULT {json}`.

import (
	"bytes"
	"context"
	"crypto/rand"
	"encoding/json"
	"fmt"
	"io"
	"net/http"
	"net/http/httptest"
	"net/url"
	"os"
	"testing"
	"time"

	"github.com/transparency-dev/formats/log"
	f_note "github.com/transparency-dev/formats/note"
	"github.com/transparency-dev/witness/internal/config"
	"github.com/transparency-dev/witness/monitoring"
	"golang.org/x/mod/sumdb/note"
)

type vrW struct{ cps map[string][]byte }

func (w vrW) GetLatestCheckpoint(ctx context.Context, id string) ([]byte, error) {
	if cp, ok := w.cps[id]; ok {
		return cp, nil
	}
	return nil, os.ErrNotExist
}

func TestVerifReplayDistribute(t *testing.T) {
	if os.Getenv("VERIF_REPLAY_MODEL") == "" {
		t.Skip("no model")
	}
	monitoring.SetMetricFactory(monitoring.InertMetricFactory{})
	wSK, wPK, _ := note.GenerateKey(rand.Reader, "witness.example")
	wS, _ := f_note.NewSignerForCosignatureV1(wSK)
	wV, _ := f_note.NewVerifierForCosignatureV1(wPK)
	oSK, _, _ := note.GenerateKey(rand.Reader, "witness.example")
	oS, _ := f_note.NewSignerForCosignatureV1(oSK)
	type lg struct {
		cfg  config.Log
		sign note.Signer
	}
	var logs []lg
	for i := 0; i < 7; i++ {
		sk, pk, _ := note.GenerateKey(rand.Reader, fmt.Sprintf("log%d.example", i))
		s, _ := note.NewSigner(sk)
		v, _ := note.NewVerifier(pk)
		origin := fmt.Sprintf("log%d.example/origin", i)
		logs = append(logs, lg{config.Log{ID: log.ID(origin), Origin: origin, Verifier: v}, s})
	}
	mk := func(l lg, signers ...note.Signer) []byte {
		cp := log.Checkpoint{Origin: l.cfg.Origin, Size: 4, Hash: bytes.Repeat([]byte{7}, 32)}
		msg, err := note.Sign(&note.Note{Text: string(cp.Marshal())}, signers...)
		if err != nil {
			t.Fatal(err)
		}
		return msg
	}
	// witness answers per log: 0 valid, 1 missing, 2 wrong log key, 3 no witness signature, 4 invalid witness signature, 5 corrupted, 6 other log's checkpoint
	cps := map[string][]byte{}
	valid := map[string]bool{}
	cps[logs[0].cfg.ID] = mk(logs[0], logs[0].sign, wS)
	valid[logs[0].cfg.ID] = true
	cps[logs[2].cfg.ID] = mk(lg{logs[2].cfg, logs[3].sign}, logs[3].sign, wS)
	cps[logs[3].cfg.ID] = mk(logs[3], logs[3].sign)
	cps[logs[4].cfg.ID] = mk(logs[4], logs[4].sign, oS)
	c5 := mk(logs[5], logs[5].sign, wS)
	c5[10] ^= 1
	cps[logs[5].cfg.ID] = c5
	cps[logs[6].cfg.ID] = mk(logs[0], logs[0].sign, wS)
	failed := map[string]string{}
	chk := func(tag string, ok bool, why string) {
		if !ok {
			if _, dup := failed[tag]; !dup {
				failed[tag] = why
			}
		}
	}
	for _, status := range []int{200, 404, 500, 302, 307, 308} {
		type put struct {
			method, path string
			body         []byte
		}
		var puts []put
		srv := httptest.NewServer(http.HandlerFunc(func(w http.ResponseWriter, r *http.Request) {
			b, _ := io.ReadAll(r.Body)
			puts = append(puts, put{r.Method, r.URL.EscapedPath(), b})
			if status/100 == 3 && r.URL.Path != "/elsewhere" {
				http.Redirect(w, r, "/elsewhere", status)
				return
			}
			if status/100 == 3 {
				w.WriteHeader(200)
				return
			}
			w.WriteHeader(status)
		}))
		var cfgs []config.Log
		for _, l := range logs[1:] {
			cfgs = append(cfgs, l.cfg)
		}
		cfgs = append(cfgs, logs[0].cfg) // the valid log comes last: it must still be attempted after the others failed
		d, _ := NewDistributor(srv.URL, srv.Client(), cfgs, wV, vrW{cps})
		err := d.DistributeOnce(context.Background())
		srv.Close()
		name := fmt.Sprintf("distributor answers %d", status)
		chk("C15.6", err != nil, name+": failures not reported")
		seen := map[string]int{}
		for _, p := range puts {
			if p.path == "/elsewhere" {
				// a redirect is not the distributor's answer: nothing may be sent to the location it names (for 307/308 the
				// HTTP client would replay the PUT with the checkpoint there)
				chk("C15.redir", false, fmt.Sprintf("%s: the redirect was followed with a %s (%d bytes) to %s", name, p.method, len(p.body), p.path))
				continue
			}
			var id string
			for _, l := range logs {
				want := "/distributor/v0/logs/" + l.cfg.ID + "/byWitness/" + url.PathEscape(wV.Name()) + "/checkpoint"
				if p.path == want {
					id = l.cfg.ID
				}
			}
			chk("C15.2", id != "" && p.method == "PUT", name+": request to "+p.method+" "+p.path)
			if id != "" {
				seen[id]++
				chk("C15.3", valid[id], name+": a checkpoint that does not verify (log key + witness key) was pushed for log "+id)
				chk("C15.2", bytes.Equal(p.body, cps[id]), name+": pushed bytes differ from what the witness returned")
			}
		}
		chk("C15.6", seen[logs[0].cfg.ID] == 1, fmt.Sprintf("%s: the valid log was pushed %d times (other logs' failures must not stop it)", name, seen[logs[0].cfg.ID]))
	}
	// a redirect answered to one log must not hold up the next one: with a transport capped at one connection per host an
	// unclosed response body keeps the connection checked out
	{
		sk, pk, _ := note.GenerateKey(rand.Reader, "logB.example")
		sB, _ := note.NewSigner(sk)
		vB, _ := note.NewVerifier(pk)
		lB := lg{config.Log{ID: log.ID("logB.example/origin"), Origin: "logB.example/origin", Verifier: vB}, sB}
		both := map[string][]byte{logs[0].cfg.ID: cps[logs[0].cfg.ID], lB.cfg.ID: mk(lB, lB.sign, wS)}
		pathB := "/distributor/v0/logs/" + lB.cfg.ID + "/byWitness/" + url.PathEscape(wV.Name()) + "/checkpoint"
		nB := 0
		srv := httptest.NewServer(http.HandlerFunc(func(w http.ResponseWriter, r *http.Request) {
			_, _ = io.ReadAll(r.Body)
			switch {
			case r.URL.Path == "/elsewhere":
				w.WriteHeader(200)
				_, _ = w.Write(bytes.Repeat([]byte("x"), 100000))
			case r.URL.EscapedPath() == pathB:
				nB++
				w.WriteHeader(200)
			default:
				http.Redirect(w, r, "/elsewhere", http.StatusFound)
			}
		}))
		capped := &http.Client{Transport: &http.Transport{MaxConnsPerHost: 1}}
		d, _ := NewDistributor(srv.URL, capped, []config.Log{logs[0].cfg, lB.cfg}, wV, vrW{both})
		ctx, cancel := context.WithTimeout(context.Background(), 3*time.Second)
		_ = d.DistributeOnce(ctx)
		cancel()
		srv.Close()
		chk("C15.leak", nB == 1, fmt.Sprintf("after a redirect answered to the first log, the second log's checkpoint reached the distributor %d times (want 1): the first response's body was left open and holds the only connection", nB))
		chk("C15.6", nB == 1, "a failure for one log stopped the attempt for the next one")
	}
	// all logs valid and distributor fine => no error
	ok := map[string][]byte{logs[0].cfg.ID: cps[logs[0].cfg.ID]}
	srv := httptest.NewServer(http.HandlerFunc(func(w http.ResponseWriter, r *http.Request) { w.WriteHeader(200) }))
	d, _ := NewDistributor(srv.URL, srv.Client(), []config.Log{logs[0].cfg}, wV, vrW{ok})
	chk("C15.4", d.DistributeOnce(context.Background()) == nil, "a valid checkpoint and a 200 answer reported as failure")
	srv.Close()
	js, _ := json.Marshal(map[string]interface{}{"realisable": true, "failed_clauses": failed})
	t.Logf("REPLAY-RESULT %s", js)
}
