package witness

// Replay for Proof.Unmarshal's round-trip obligation (C11.u) on the REAL code: a list of G_k hashes is written
// with the real Marshal and read back with the real Unmarshal.  Injected with `go test -overlay`.

import (
	"bytes"
	"encoding/json"
	"fmt"
	"os"
	"testing"
)

func TestVerifReplayProof(t *testing.T) {
	raw := os.Getenv("VERIF_REPLAY_MODEL")
	if raw == "" {
		t.Skip("no model")
	}
	var m struct{ K int }
	if err := json.Unmarshal([]byte(raw), &m); err != nil {
		t.Fatal(err)
	}
	if m.K < 0 || m.K > 64 {
		m.K = 3
	}
	var written Proof
	for i := 0; i < m.K; i++ {
		written = append(written, bytes.Repeat([]byte{byte(i + 1)}, 1+i%64))
	}
	enc := written.Marshal()
	var back Proof
	err := back.Unmarshal([]byte(enc))
	failed := map[string]string{}
	if err != nil {
		failed["C11.u"] = fmt.Sprintf("Unmarshal(Marshal(list of %d hashes)) = %q is refused: %v", m.K, enc, err)
	} else if len(back) != len(written) {
		failed["C11.u"] = fmt.Sprintf("read back %d hashes, wrote %d", len(back), len(written))
	} else {
		for i := range back {
			if !bytes.Equal(back[i], written[i]) {
				failed["C11.u"] = fmt.Sprintf("hash %d differs", i)
			}
		}
	}
	js, _ := json.Marshal(map[string]interface{}{"realisable": true, "k": m.K, "encoding": enc, "failed_clauses": failed})
	t.Logf("REPLAY-RESULT %s", js)
}
