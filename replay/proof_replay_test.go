package witness

// Replay for the Proof.Marshal / Proof.Unmarshal obligations (C11.m, C11.u and their invariants) on the REAL code:
// lists of k hashes (the model's G_k first, then 0..64) are written with the real Marshal and read back with the
// real Unmarshal -- into a fresh receiver and into a receiver that already holds another proof (the contract speaks
// about *p after the call, whatever it held before) -- and Marshal's output is compared with the line encoding.
// Injected with `go test -overlay`.

import (
	"bytes"
	"encoding/base64"
	"encoding/json"
	"fmt"
	"os"
	"testing"
)

func TestVerifReplayProof(t *testing.T) {
	raw := os.Getenv("VERIF_REPLAY_MODEL")
	if raw == "" {
		t.Skip("no model")
	}
	var m struct{ K int }
	if err := json.Unmarshal([]byte(raw), &m); err != nil {
		t.Fatal(err)
	}
	if m.K < 0 || m.K > 64 {
		m.K = 3
	}
	failed := map[string]string{}
	fail := func(tag, why string) {
		if _, dup := failed[tag]; !dup {
			failed[tag] = why
		}
	}
	ks := []int{m.K}
	for k := 0; k <= 64; k++ {
		ks = append(ks, k)
	}
	var lastEnc string
	for _, k := range ks {
		var written Proof
		want := ""
		for i := 0; i < k; i++ {
			h := bytes.Repeat([]byte{byte(0xf7 + i)}, 1+(i*5)%64)
			written = append(written, h)
			want += base64.StdEncoding.EncodeToString(h) + "\n"
		}
		enc := written.Marshal()
		lastEnc = enc
		if enc != want {
			fail("C11.m", fmt.Sprintf("Marshal(list of %d hashes) = %q, want %q", k, enc, want))
		}
		for _, pre := range []string{"fresh receiver", "receiver holding 3 other hashes"} {
			var back Proof
			if pre != "fresh receiver" {
				back = Proof{[]byte("a"), []byte("b"), []byte("c")}
			}
			err := back.Unmarshal([]byte(want))
			switch {
			case err != nil:
				fail("C11.u", fmt.Sprintf("%s: Unmarshal(encoding of %d hashes = %q) is refused: %v", pre, k, want, err))
			case len(back) != len(written):
				fail("C11.u", fmt.Sprintf("%s: read back %d hashes, wrote %d", pre, len(back), len(written)))
			default:
				for i := range back {
					if !bytes.Equal(back[i], written[i]) {
						fail("C11.u", fmt.Sprintf("%s: hash %d of %d differs", pre, i, k))
					}
				}
			}
		}
	}
	// refusals leave nothing half-read
	for _, bad := range []string{"AAAA", "AAAA\n!!!!\n", "AAAA\nAAA\n"} {
		p := Proof{[]byte("kept")}
		if err := p.Unmarshal([]byte(bad)); err == nil {
			fail("C11.refuse", fmt.Sprintf("malformed proof text %q accepted as %d hashes", bad, len(p)))
		} else if len(p) != 1 || string(p[0]) != "kept" {
			fail("C11.r", fmt.Sprintf("malformed proof text %q refused (%v) but the receiver was changed to %d hashes", bad, err, len(p)))
		}
	}
	js, _ := json.Marshal(map[string]interface{}{"realisable": true, "k": m.K, "encoding": lastEnc, "failed_clauses": failed})
	t.Logf("REPLAY-RESULT %s", js)
}
