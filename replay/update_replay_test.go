package witness

// Replay of govc counterexamples for (*Witness).Update on the REAL code.
// Injected with `go test -overlay` as internal/witness/zz_verif_replay_test.go; never written into /repo.
// Input: env VERIF_REPLAY_MODEL = JSON object of contract-level values (the solver model projected on the
// contract vocabulary). The test builds real keys, real signed checkpoints, a real RFC 6962 tree and proofs,
// a fault-injecting wrapper around the real in-memory store, calls the real Update and evaluates every
// clause of the contract in executable form. Output: one line `REPLAY-RESULT {json}`.

import (
	"bytes"
	"context"
	"crypto/rand"
	"encoding/json"
	"errors"
	"fmt"
	"os"
	"sort"
	"strings"
	"testing"

	"github.com/transparency-dev/formats/log"
	f_note "github.com/transparency-dev/formats/note"
	"github.com/transparency-dev/merkle/proof"
	"github.com/transparency-dev/merkle/rfc6962"
	"github.com/transparency-dev/merkle/testonly"
	"github.com/transparency-dev/witness/internal/persistence"
	"github.com/transparency-dev/witness/internal/persistence/inmemory"
	"github.com/transparency-dev/witness/monitoring"
	"golang.org/x/mod/sumdb/note"
	"google.golang.org/grpc/codes"
	"google.golang.org/grpc/status"
)

type vrModel struct {
	Known, NOK, Stored, POK, SameRoot, VcOK                bool
	OldSize, NS, PS                                        uint64
	LenProof, NsigNext, NSigners                           int
	WoFail, GlFail, SetFail, SignFail                      bool
	HonestProof                                            bool // use the real consistency proof when sizes grow
}

type vrCounter struct{ m map[string]int }

func (c *vrCounter) Inc(l ...string) { c.m[strings.Join(l, "|")]++ }

type vrFaultStore struct {
	persistence.LogStatePersistence
	m                                   *vrModel
	armed                               bool
	wo, gl, set, cls, ro                int
	woErr, glErr, setErr                error
	glNotFound                          bool
}

func (s *vrFaultStore) WriteOps(id string) (persistence.LogStateWriteOps, error) {
	if s.armed {
		s.wo++
		if s.m.WoFail {
			s.woErr = errors.New("injected WriteOps failure")
			return nil, s.woErr
		}
	}
	w, err := s.LogStatePersistence.WriteOps(id)
	if err != nil {
		return nil, err
	}
	return &vrFaultOps{w, s}, nil
}

func (s *vrFaultStore) ReadOps(id string) (persistence.LogStateReadOps, error) {
	if s.armed {
		s.ro++
	}
	return s.LogStatePersistence.ReadOps(id)
}

type vrFaultOps struct {
	persistence.LogStateWriteOps
	s *vrFaultStore
}

func (o *vrFaultOps) GetLatest() ([]byte, error) {
	if o.s.armed {
		o.s.gl++
		if o.s.m.GlFail {
			o.s.glErr = status.Error(codes.Unavailable, "injected read failure")
			return nil, o.s.glErr
		}
	}
	b, err := o.LogStateWriteOps.GetLatest()
	if o.s.armed && err != nil {
		o.s.glErr = err
		o.s.glNotFound = status.Code(err) == codes.NotFound
	}
	return b, err
}

func (o *vrFaultOps) Set(c []byte) error {
	if o.s.armed {
		o.s.set++
		if o.s.m.SetFail {
			o.s.setErr = errors.New("injected Set failure")
			return o.s.setErr
		}
	}
	return o.LogStateWriteOps.Set(c)
}

func (o *vrFaultOps) Close() error {
	if o.s.armed {
		o.s.cls++
	}
	return o.LogStateWriteOps.Close()
}

type vrFailSigner struct{ note.Signer }

func (f vrFailSigner) Sign(msg []byte) ([]byte, error) { return nil, errors.New("injected signer failure") }

func vrSnapshot(t *testing.T, p persistence.LogStatePersistence) map[string]string {
	ids, err := p.Logs()
	if err != nil {
		t.Fatal(err)
	}
	out := map[string]string{}
	for _, id := range ids {
		r, _ := p.ReadOps(id)
		b, err := r.GetLatest()
		if err == nil {
			out[id] = string(b)
		}
	}
	return out
}

func vrSign(t *testing.T, s note.Signer, origin string, size uint64, root []byte, extraLines int) []byte {
	cp := log.Checkpoint{Origin: origin, Size: size, Hash: root}
	msg, err := note.Sign(&note.Note{Text: string(cp.Marshal())}, s)
	if err != nil {
		t.Fatal(err)
	}
	for i := 0; i < extraLines; i++ {
		// well-formed signature lines by unknown keys (ignored by note.Open, but counted)
		msg = append(msg, []byte(fmt.Sprintf("— junk%d AAAAAAAAAAAAAAAAAAAAAAAAAAAAAAAAAAAAAAAAAAAAAAAAAAAAAAAAAAAAAAAAAAAAAAAAAAAAAAAAAAAAAAAAAAA=\n", i))...)
	}
	return msg
}

func TestVerifReplayUpdate(t *testing.T) {
	raw := os.Getenv("VERIF_REPLAY_MODEL")
	if raw == "" {
		t.Skip("no model")
	}
	var m vrModel
	if err := json.Unmarshal([]byte(raw), &m); err != nil {
		t.Fatal(err)
	}
	monitoring.SetMetricFactory(monitoring.InertMetricFactory{})
	ctx := context.Background()
	const origin = "replay.example/log"
	logSK, logPK, _ := note.GenerateKey(rand.Reader, "replaylog")
	logS, _ := note.NewSigner(logSK)
	logV, _ := note.NewVerifier(logPK)
	otherSK, _, _ := note.GenerateKey(rand.Reader, "replaylog")
	otherS, _ := note.NewSigner(otherSK)
	var signers []note.Signer
	var witVs []note.Verifier
	if m.NSigners < 1 {
		m.NSigners = 1
	}
	if m.NSigners > 4 {
		m.NSigners = 4
	}
	for i := 0; i < m.NSigners; i++ {
		sk, pk, _ := note.GenerateKey(rand.Reader, fmt.Sprintf("wit%d", i))
		cs, err := f_note.NewSignerForCosignatureV1(sk)
		if err != nil {
			t.Fatal(err)
		}
		var s note.Signer = cs
		v, err := f_note.NewVerifierForCosignatureV1(pk)
		if err != nil {
			t.Fatal(err)
		}
		if m.SignFail && i == 0 {
			s = vrFailSigner{s}
		}
		signers = append(signers, s)
		witVs = append(witVs, v)
	}
	logID := log.ID(origin)
	known := map[string]LogInfo{}
	if m.Known {
		known[logID] = LogInfo{SigV: logV, Origin: origin, Hasher: rfc6962.DefaultHasher}
	}
	known[log.ID("other")] = LogInfo{SigV: logV, Origin: "other", Hasher: rfc6962.DefaultHasher}
	store := &vrFaultStore{LogStatePersistence: inmemory.NewPersistence(), m: &m}
	// a healthy witness is used to establish the stored state (signer faults only apply to the call under test)
	healthy := append([]note.Signer(nil), signers...)
	if v, ok := healthy[0].(vrFailSigner); ok {
		healthy[0] = v.Signer
	}
	setupLogs := map[string]LogInfo{logID: {SigV: logV, Origin: origin, Hasher: rfc6962.DefaultHasher}}
	w0, err := New(Opts{Persistence: store, Signers: healthy, KnownLogs: setupLogs})
	if err != nil {
		t.Fatal(err)
	}
	w, _ := New(Opts{Persistence: store, Signers: signers, KnownLogs: known})
	cA, cS, cI, cC := &vrCounter{map[string]int{}}, &vrCounter{map[string]int{}}, &vrCounter{map[string]int{}}, &vrCounter{map[string]int{}}

	// compress sizes to small representatives keeping order, equality and zero-ness
	vals := []uint64{m.OldSize, m.NS, m.PS}
	uniq := map[uint64]bool{}
	for _, v := range vals {
		if v != 0 {
			uniq[v] = true
		}
	}
	var us []uint64
	for v := range uniq {
		us = append(us, v)
	}
	sort.Slice(us, func(i, j int) bool { return us[i] < us[j] })
	rank := map[uint64]uint64{0: 0}
	for i, v := range us {
		rank[v] = uint64(3 + 4*i)
	}
	oldSize, nS, pS := rank[m.OldSize], rank[m.NS], rank[m.PS]
	tree := testonly.New(rfc6962.DefaultHasher)
	maxN := nS
	if pS > maxN {
		maxN = pS
	}
	for i := uint64(0); i < maxN+2; i++ {
		tree.AppendData([]byte(fmt.Sprintf("leaf %d", i)))
	}
	rootAt := func(n uint64) []byte { return tree.HashAt(n) }
	forkRoot := func(n uint64) []byte {
		f := testonly.New(rfc6962.DefaultHasher)
		for i := uint64(0); i < n; i++ {
			f.AppendData([]byte(fmt.Sprintf("fork leaf %d", i)))
		}
		if n == 0 {
			return bytes.Repeat([]byte{0x42}, 32)
		}
		return f.Hash()
	}

	// establish the stored state through the real witness (first use)
	var storedRaw []byte
	if m.Stored {
		if !m.POK {
			t.Logf("REPLAY-RESULT %s", `{"realisable":false,"why":"a stored checkpoint that does not parse cannot be produced through Update"}`)
			return
		}
		cp := vrSign(t, logS, origin, pS, rootAt(pS), 0)
		storedRaw, err = w0.Update(ctx, logID, 0, cp, nil)
		if err != nil {
			t.Fatalf("setup: %v", err)
		}
	}
	// the submitted checkpoint
	nextRoot := rootAt(nS)
	if m.Stored && !m.SameRoot && nS == pS {
		nextRoot = forkRoot(nS)
	}
	if m.Stored && nS > pS && pS > 0 && !m.VcOK && !m.HonestProof && m.LenProof > 0 {
		// keep the honest root; the proof is made wrong below
	}
	extra := m.NsigNext - 1
	if extra < 0 {
		extra = 0
	}
	signer := logS
	if !m.NOK {
		signer = otherS
	}
	nextRaw := vrSign(t, signer, origin, nS, nextRoot, extra)
	var pf [][]byte
	if m.Stored && pS > 0 && nS > pS && (m.VcOK || m.HonestProof) {
		pf, err = tree.ConsistencyProof(pS, nS)
		if err != nil {
			t.Fatal(err)
		}
	} else {
		for i := 0; i < m.LenProof && i < 8; i++ {
			pf = append(pf, bytes.Repeat([]byte{byte(i + 1)}, 32))
		}
	}
	before := vrSnapshot(t, store.LogStatePersistence)
	counterUpdateAttempt, counterUpdateSuccess, counterInvalidConsistency, counterInconsistentCheckpoints = cA, cS, cI, cC
	store.armed = true
	out, uerr := w.Update(ctx, logID, oldSize, nextRaw, pf)
	store.armed = false
	after := vrSnapshot(t, store.LogStatePersistence)

	// ---- concrete facts
	_, _, _, perr := log.ParseCheckpoint(nextRaw, origin, logV)
	nOK := perr == nil && m.Known
	stored := m.Stored
	sameRoot := stored && bytes.Equal(nextRoot, rootAt(pS))
	emptyProof := len(pf) == 0
	vcOK := false
	if stored {
		vcOK = proof.VerifyConsistency(rfc6962.DefaultHasher, pS, nS, pf, rootAt(pS), nextRoot) == nil
	}
	fault := (store.wo > 0 && store.woErr != nil) || (store.gl > 0 && store.glErr != nil && !store.glNotFound) || (store.set > 0 && store.setErr != nil) || (m.SignFail && out == nil && uerr != nil && strings.Contains(uerr.Error(), "sign"))
	V := "Accept"
	switch {
	case !m.Known:
		V = "UnknownLog"
	case !nOK:
		V = "NoValidSignature"
	case !stored:
		V = "AcceptFirst"
	case oldSize > nS:
		V = "OldSizeInvalid"
	case oldSize != pS:
		V = "Stale"
	case nS == pS && !sameRoot:
		V = "RootMismatch"
	case (nS == pS && !emptyProof) || (nS != pS && !vcOK):
		V = "BadProof"
	}
	zeroGrow := pS == 0 && nS > 0
	committed := store.set > 0 && store.setErr == nil
	failed := map[string]string{}
	chk := func(tag string, ok bool, why string) {
		if !ok {
			failed[tag] = why
		}
	}
	sameStore := fmt.Sprint(before) == fmt.Sprint(after)
	isSentinel := func(e error) bool {
		for _, s := range []error{ErrNoValidSignature, ErrUnknownLog, ErrOldSizeInvalid, ErrCheckpointStale, ErrInvalidProof, ErrRootMismatch} {
			if e == s {
				return true
			}
		}
		return false
	}
	// C09 decision table
	switch V {
	case "UnknownLog":
		chk("C09.1", out == nil && uerr == ErrUnknownLog, fmt.Sprintf("got (%q, %v)", out, uerr))
		chk("C02.b", out == nil && uerr == ErrUnknownLog && store.wo == 0, "unknown log not refused outright")
	case "NoValidSignature":
		chk("C09.2", out == nil && uerr == ErrNoValidSignature, fmt.Sprintf("got (%q, %v)", out, uerr))
	}
	if !fault {
		switch V {
		case "AcceptFirst":
			if oldSize == 0 && emptyProof {
				chk("C09.3", uerr == nil, fmt.Sprintf("first use refused: %v", uerr))
				chk("C08.d", uerr == nil, fmt.Sprintf("first use refused: %v", uerr))
			}
		case "OldSizeInvalid":
			chk("C09.4", bytes.Equal(out, storedRaw) && uerr == ErrOldSizeInvalid, fmt.Sprintf("got (%d bytes, %v)", len(out), uerr))
		case "Stale":
			chk("C09.5", bytes.Equal(out, storedRaw) && uerr == ErrCheckpointStale, fmt.Sprintf("got (%d bytes, %v)", len(out), uerr))
		case "RootMismatch":
			chk("C09.6", bytes.Equal(out, storedRaw) && uerr == ErrRootMismatch, fmt.Sprintf("got (%d bytes, %v)", len(out), uerr))
		case "BadProof":
			if !zeroGrow {
				chk("C09.7", out != nil && bytes.Equal(out, storedRaw) && uerr == ErrInvalidProof, fmt.Sprintf("got (out nil=%v, err=%v), want (stored checkpoint, ErrInvalidProof)", out == nil, uerr))
			}
		case "Accept":
			if !zeroGrow {
				chk("C09.8", uerr == nil, fmt.Sprintf("refused: %v", uerr))
			}
		}
	} else {
		chk("C09.9", uerr != nil && out == nil && !isSentinel(uerr), fmt.Sprintf("fault outcome (%q, %v)", out, uerr))
	}
	// C03 refusal
	if uerr != nil {
		chk("C03.a", sameStore, "store changed by a refused update")
		chk("C03.b", out == nil || (stored && bytes.Equal(out, storedRaw)), "bytes other than the stored checkpoint accompany a refusal")
	}
	// C04 / C07 acceptance
	chk("C04.a", (uerr == nil) == committed, fmt.Sprintf("err=%v committed=%v", uerr, committed))
	if uerr == nil {
		chk("C02.a", m.Known && nOK, "accepted without known log / valid signature")
		got, gerr := w.GetCheckpoint(logID)
		chk("C04.c", gerr == nil && bytes.Equal(got, out), "read after accepted update differs from what it returned")
		chk("C07.c", gerr == nil && bytes.Equal(got, out), "read after accepted update differs from what it returned")
		n, oerr := note.Open(out, note.VerifierList(append([]note.Verifier{logV}, witVs...)...))
		okSigs := oerr == nil && len(n.Sigs) == 1+len(witVs)
		var inN *note.Note
		if okSigs {
			inN, _ = note.Open(nextRaw, note.VerifierList(logV))
		}
		chk("C04.b", okSigs && inN != nil && n.Text == inN.Text, fmt.Sprintf("result is not the log's text with log + %d witness signatures: %v", len(witVs), oerr))
		if stored {
			chk("C01.a", pS <= nS && (pS != nS || sameRoot) && (pS >= nS || vcOK), "accepted a step that is not a consistent extension")
		}
	}
	if committed {
		_, _, _, rerr := log.ParseCheckpoint([]byte(after[logID]), origin, logV)
		chk("C08.a", rerr == nil, fmt.Sprintf("stored value does not re-open under the log key: %v", rerr))
	}
	if store.wo > 0 && store.woErr == nil {
		chk("C07.p2", store.cls == 1, fmt.Sprintf("write handle closed %d times", store.cls))
	}
	if store.gl > 0 && store.glErr != nil && !store.glNotFound {
		chk("C07.a", uerr != nil && store.set == 0, "failed read treated as first use")
	}
	if store.set > 0 && store.setErr != nil {
		chk("C07.b", uerr != nil && out == nil, "failed Set reported as success or with bytes")
	}
	// C08.c honest step
	if !fault && m.Known && nOK && extra == 0 && stored && oldSize == pS && pS <= nS && (pS != nS || (sameRoot && emptyProof)) && (!zeroGrow || emptyProof) && (!(0 < pS && pS < nS) || vcOK) {
		chk("C08.c", uerr == nil, fmt.Sprintf("honest step %d -> %d refused: %v", pS, nS, uerr))
	}
	// C20 counters
	b2i := func(b bool) int {
		if b {
			return 1
		}
		return 0
	}
	chk("C20.a", cA.m[logID] == b2i(m.Known), fmt.Sprintf("attempt counter moved by %d", cA.m[logID]))
	chk("C20.b", cS.m[logID] == b2i(uerr == nil), fmt.Sprintf("success counter moved by %d, err=%v", cS.m[logID], uerr))
	wantInv := !fault && V == "BadProof"
	if zeroGrow {
		wantInv = uerr == ErrInvalidProof
	}
	chk("C20.c", cI.m[logID] == b2i(wantInv), fmt.Sprintf("invalid-consistency counter moved by %d, verdict %s, err=%v", cI.m[logID], V, uerr))
	chk("C20.d", cC.m[logID] == b2i(!fault && V == "RootMismatch"), fmt.Sprintf("inconsistent counter moved by %d, verdict %s", cC.m[logID], V))
	chk("C20.e", len(cA.m)+len(cS.m)+len(cI.m)+len(cC.m) == b2i(cA.m[logID] > 0)+b2i(cS.m[logID] > 0)+b2i(cI.m[logID] > 0)+b2i(cC.m[logID] > 0), "a counter moved for another label")
	res := map[string]interface{}{
		"realisable": true, "verdict": V, "fault": fault, "sizes": map[string]uint64{"old": oldSize, "stored": pS, "next": nS},
		"proof_len": len(pf), "err": fmt.Sprint(uerr), "out_nil": out == nil, "out_is_stored": stored && bytes.Equal(out, storedRaw),
		"failed_clauses": failed,
	}
	js, _ := json.Marshal(res)
	t.Logf("REPLAY-RESULT %s", js)
}
