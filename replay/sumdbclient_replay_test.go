package client

// Replay for the tile-path obligations (C18) on the REAL code: the path requested by TileData / FullLeavesAtOffset /
// PartialLeavesAtOffset is compared with the reference tlog.Tile.Path for the offset of the countermodel and for
// every carry boundary of the x%03d encoding.  Injected with `go test -overlay`.  Output: `REPLAY-RESULT {json}`.

import (
	"encoding/json"
	"fmt"
	"os"
	"testing"

	"golang.org/x/mod/sumdb/tlog"
)

type vrFetcher struct{ paths []string }

func (f *vrFetcher) GetData(path string) ([]byte, error) {
	f.paths = append(f.paths, path)
	return []byte{}, nil
}

func TestVerifReplayTilePath(t *testing.T) {
	raw := os.Getenv("VERIF_REPLAY_MODEL")
	if raw == "" {
		t.Skip("no model")
	}
	var m struct{ Offset int64 }
	_ = json.Unmarshal([]byte(raw), &m)
	offsets := []int64{m.Offset, 0, 1, 999, 1000, 1001, 999999, 1000000, 1000001, 1000999, 999999999, 1000000000, 1000000001}
	failed := map[string]string{}
	chk := func(tag string, ok bool, why string) {
		if !ok {
			if _, dup := failed[tag]; !dup {
				failed[tag] = why
			}
		}
	}
	for _, off := range offsets {
		if off < 0 {
			continue
		}
		for _, w := range []int{256, 1, 255} {
			f := &vrFetcher{}
			c := &SumDBClient{height: 8, fetcher: f}
			partial := w
			if w == 256 {
				partial = 0
			}
			_, _ = c.TileData(3, int(off), partial)
			want := "/" + tlog.Tile{H: 8, L: 3, N: off, W: w}.Path()
			for _, tag := range []string{"C18.td", "C18.tp", "C19.t"} {
				chk(tag, len(f.paths) == 1 && f.paths[0] == want, fmt.Sprintf("TileData(level 3, offset %d, width %d) requested %v, reference path %q", off, w, f.paths, want))
			}
		}
		f := &vrFetcher{}
		c := &SumDBClient{height: 8, fetcher: f}
		_, _ = c.FullLeavesAtOffset(int(off))
		_, _ = c.PartialLeavesAtOffset(int(off), 7)
		wantF := "/" + tlog.Tile{H: 8, L: -1, N: off, W: 256}.Path()
		wantP := "/" + tlog.Tile{H: 8, L: -1, N: off, W: 7}.Path()
		chk("C18.fl", len(f.paths) == 2 && f.paths[0] == wantF, fmt.Sprintf("FullLeavesAtOffset(%d) requested %v, reference %q", off, f.paths, wantF))
		chk("C18.pl", len(f.paths) == 2 && f.paths[1] == wantP, fmt.Sprintf("PartialLeavesAtOffset(%d, 7) requested %v, reference %q", off, f.paths, wantP))
	}
	js, _ := json.Marshal(map[string]interface{}{"realisable": true, "offsets": offsets, "failed_clauses": failed})
	t.Logf("REPLAY-RESULT %s", js)
}
