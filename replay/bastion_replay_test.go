package bastion

// Replay of govc counterexamples for (*addHandler).handleUpdate / ServeHTTP on the REAL code, with the REAL
// witness (in-memory store) behind the real handler. Injected with `go test -overlay`; never written into /repo.
// Input: env VERIF_REPLAY_MODEL = {"Class": "<verdict class>"}.  Output: one line `REPLAY-RESULT {json}`.

import (
	"bytes"
	"context"
	"crypto/rand"
	"encoding/base64"
	"encoding/json"
	"fmt"
	"net/http"
	"net/http/httptest"
	"os"
	"strings"
	"testing"

	"github.com/transparency-dev/formats/log"
	f_note "github.com/transparency-dev/formats/note"
	"github.com/transparency-dev/merkle/rfc6962"
	"github.com/transparency-dev/merkle/testonly"
	"github.com/transparency-dev/witness/internal/config"
	"github.com/transparency-dev/witness/internal/persistence/inmemory"
	"github.com/transparency-dev/witness/internal/witness"
	"github.com/transparency-dev/witness/monitoring"
	"golang.org/x/mod/sumdb/note"
	"golang.org/x/time/rate"
)

type vrAdapter struct{ w *witness.Witness }

func (a vrAdapter) GetLatestCheckpoint(ctx context.Context, logID string) ([]byte, error) {
	return a.w.GetCheckpoint(logID)
}

func (a vrAdapter) Update(ctx context.Context, logID string, oldSize uint64, newCP []byte, proof [][]byte) ([]byte, error) {
	return a.w.Update(ctx, logID, oldSize, newCP, proof)
}

func vrCP(t *testing.T, s note.Signer, origin string, size uint64, root []byte) []byte {
	cp := log.Checkpoint{Origin: origin, Size: size, Hash: root}
	msg, err := note.Sign(&note.Note{Text: string(cp.Marshal())}, s)
	if err != nil {
		t.Fatal(err)
	}
	return msg
}

func vrBody(old uint64, proof [][]byte, cp []byte) string {
	var b strings.Builder
	fmt.Fprintf(&b, "old %d\n", old)
	for _, p := range proof {
		b.WriteString(base64.StdEncoding.EncodeToString(p) + "\n")
	}
	b.WriteString("\n")
	b.Write(cp)
	return b.String()
}

func TestVerifReplayBastion(t *testing.T) {
	raw := os.Getenv("VERIF_REPLAY_MODEL")
	if raw == "" {
		t.Skip("no model")
	}
	var m struct{ Class string }
	if err := json.Unmarshal([]byte(raw), &m); err != nil {
		t.Fatal(err)
	}
	monitoring.SetMetricFactory(monitoring.InertMetricFactory{})
	const origin = "replay.example/log"
	logSK, logPK, _ := note.GenerateKey(rand.Reader, "replaylog")
	logS, _ := note.NewSigner(logSK)
	logV, _ := note.NewVerifier(logPK)
	otherSK, _, _ := note.GenerateKey(rand.Reader, "replaylog")
	otherS, _ := note.NewSigner(otherSK)
	wSK, wPK, _ := note.GenerateKey(rand.Reader, "replaywitness")
	wS, _ := f_note.NewSignerForCosignatureV1(wSK)
	wV, _ := f_note.NewVerifierForCosignatureV1(wPK)
	logID := log.ID(origin)
	wit, err := witness.New(witness.Opts{Persistence: inmemory.NewPersistence(), Signers: []note.Signer{wS},
		KnownLogs: map[string]witness.LogInfo{logID: {SigV: logV, Origin: origin, Hasher: rfc6962.DefaultHasher}}})
	if err != nil {
		t.Fatal(err)
	}
	initMetrics()
	h := &addHandler{w: vrAdapter{wit}, logs: map[string]config.Log{logID: {ID: logID, Origin: origin, Verifier: logV}}, witVerifier: wV, limiter: rate.NewLimiter(rate.Inf, 1)}
	tree := testonly.New(rfc6962.DefaultHasher)
	for i := 0; i < 12; i++ {
		tree.AppendData([]byte(fmt.Sprintf("leaf %d", i)))
	}
	do := func(body string) *httptest.ResponseRecorder {
		rec := httptest.NewRecorder()
		req := httptest.NewRequest(http.MethodPost, "/add-checkpoint", bytes.NewBufferString(body))
		h.ServeHTTP(rec, req)
		return rec
	}
	// the witness holds size 5
	if rec := do(vrBody(0, nil, vrCP(t, logS, origin, 5, tree.HashAt(5)))); rec.Code != 200 {
		t.Fatalf("setup: %d %s", rec.Code, rec.Body.String())
	}
	proof58, _ := tree.ConsistencyProof(5, 8)
	fork := testonly.New(rfc6962.DefaultHasher)
	for i := 0; i < 5; i++ {
		fork.AppendData([]byte(fmt.Sprintf("fork %d", i)))
	}
	var rec *httptest.ResponseRecorder
	want := 0
	submitted := vrCP(t, logS, origin, 8, tree.HashAt(8))
	switch m.Class {
	case "accepted":
		rec, want = do(vrBody(5, proof58, submitted)), 200
	case "nosig":
		submitted = vrCP(t, otherS, origin, 8, tree.HashAt(8))
		rec, want = do(vrBody(5, proof58, submitted)), 403
	case "oldsize":
		rec, want = do(vrBody(9, proof58, submitted)), 400
	case "stale":
		rec, want = do(vrBody(3, proof58, submitted)), 409
	case "rootmismatch":
		submitted = vrCP(t, logS, origin, 5, fork.Hash())
		rec, want = do(vrBody(5, nil, submitted)), 409
	case "badproof":
		rec, want = do(vrBody(5, [][]byte{bytes.Repeat([]byte{1}, 32)}, submitted)), 422
	default:
		t.Logf("REPLAY-RESULT %s", `{"realisable":false,"why":"unknown class"}`)
		return
	}
	failed := map[string]string{}
	tagFor := map[string]string{"accepted": "C10.200", "nosig": "C10.403", "oldsize": "C10.400", "stale": "C10.409s", "rootmismatch": "C10.409r", "badproof": "C10.422"}
	if rec.Code != want {
		failed[tagFor[m.Class]] = fmt.Sprintf("status %d, want %d (body %q)", rec.Code, want, rec.Body.String())
	}
	switch m.Class {
	case "accepted":
		// body must be cosignature line(s) verifying under the witness key over the submitted text
		n, _ := note.Open(submitted, note.VerifierList(logV))
		if n != nil {
			full := []byte(n.Text + "\n" + rec.Body.String())
			if _, err := note.Open(full, note.VerifierList(wV)); err != nil && rec.Code == 200 {
				failed["C10.200"] = "body is not a valid cosignature over the submitted text: " + err.Error()
			}
		}
	case "stale":
		if rec.Code == 409 && (rec.Header().Get("Content-Type") != "text/x.tlog.size" || rec.Body.String() != "5\n") {
			failed["C10.409s"] = fmt.Sprintf("content-type %q body %q", rec.Header().Get("Content-Type"), rec.Body.String())
		}
	}
	js, _ := json.Marshal(map[string]interface{}{"realisable": true, "class": m.Class, "status": rec.Code, "want": want, "body": rec.Body.String(), "failed_clauses": failed})
	t.Logf("REPLAY-RESULT %s", js)
}
