package sumdb

// Replay of the govc counterexample for the sumdb feeder's fetchProof (callee precondition of tlog.ProveTree:
// tree size <= 2^62) on the REAL code: the real FeedLog is run once against an HTTP stub serving a validly
// log-signed checkpoint with the hostile size from the model and a witness stub that holds size 1.
// Injected with `go test -overlay`; never written into /repo.  Output: one line `REPLAY-RESULT {json}`.

import (
	"context"
	"crypto/rand"
	"encoding/base64"
	"encoding/json"
	"fmt"
	"net/http"
	"net/http/httptest"
	"os"
	"testing"
	"time"

	"github.com/transparency-dev/witness/internal/config"
	"golang.org/x/mod/sumdb/note"
)

type vrWitness struct {
	latest  []byte
	updates int
}

func (w *vrWitness) GetLatestCheckpoint(ctx context.Context, logID string) ([]byte, error) {
	return w.latest, nil
}

func (w *vrWitness) Update(ctx context.Context, logID string, oldSize uint64, newCP []byte, proof [][]byte) ([]byte, error) {
	w.updates++
	return newCP, nil
}

func TestVerifReplaySumDB(t *testing.T) {
	raw := os.Getenv("VERIF_REPLAY_MODEL")
	if raw == "" {
		t.Skip("no model")
	}
	var m struct{ ToSize, FromSize uint64 }
	if err := json.Unmarshal([]byte(raw), &m); err != nil {
		t.Fatal(err)
	}
	const origin = "go.sum database tree"
	sk, pk, _ := note.GenerateKey(rand.Reader, "sum.example")
	signer, _ := note.NewSigner(sk)
	verifier, _ := note.NewVerifier(pk)
	mk := func(size uint64) []byte {
		h := base64.StdEncoding.EncodeToString(make([]byte, 32))
		msg, err := note.Sign(&note.Note{Text: fmt.Sprintf("%s\n%d\n%s\n", origin, size, h)}, signer)
		if err != nil {
			t.Fatal(err)
		}
		return msg
	}
	srv := httptest.NewServer(http.HandlerFunc(func(w http.ResponseWriter, r *http.Request) {
		if r.URL.Path == "/latest" {
			_, _ = w.Write(mk(m.ToSize))
			return
		}
		// tiles: all-zero hashes of the right length
		_, _ = w.Write(make([]byte, 32*256))
	}))
	defer srv.Close()
	wit := &vrWitness{latest: mk(m.FromSize)}
	l := config.Log{ID: "sumdb", Origin: origin, Verifier: verifier, URL: srv.URL}
	ctx, cancel := context.WithTimeout(context.Background(), 4*time.Second)
	defer cancel()
	done := make(chan error, 1)
	go func() { done <- FeedLog(ctx, l, wit, srv.Client(), 0) }()
	failed := map[string]string{}
	var res string
	select {
	case err := <-done:
		res = fmt.Sprintf("returned: %v", err)
	case <-time.After(6 * time.Second):
		res = "no result 2s after the context's deadline: the feed cycle hangs (tlog.ProveTree spins in maxpow2)"
		failed["pre"] = res
		failed["C19.s"] = res
	}
	// a log server that accepts the request and never answers, a client without a timeout of its own (what cmd/feedbastion
	// passes to every feeder): the cycle must end when its context does
	release := make(chan struct{})
	silent := httptest.NewServer(http.HandlerFunc(func(w http.ResponseWriter, r *http.Request) { <-release }))
	defer silent.Close()
	defer close(release)
	// ... and one that serves the checkpoint but never answers a tile request (the proof path)
	halfSilent := httptest.NewServer(http.HandlerFunc(func(w http.ResponseWriter, r *http.Request) {
		if r.URL.Path == "/latest" {
			_, _ = w.Write(mk(5))
			return
		}
		<-release
	}))
	defer halfSilent.Close()
	for _, u := range []string{silent.URL, halfSilent.URL} {
		w2 := &vrWitness{latest: mk(1)}
		c2, cancel2 := context.WithTimeout(context.Background(), 300*time.Millisecond)
		d2 := make(chan error, 1)
		go func() {
			d2 <- FeedLog(c2, config.Log{ID: "sumdb", Origin: origin, Verifier: verifier, URL: u}, w2, &http.Client{}, 0)
		}()
		select {
		case <-d2:
		case <-time.After(3 * time.Second):
			why := "a silent log server: the sumdb feed cycle is still running 2.7s after its 300ms context ended (its requests ignore the context)"
			failed["C19.ctx"] = why
			failed["C13.ctx"] = why
		}
		cancel2()
	}
	js, _ := json.Marshal(map[string]interface{}{"realisable": true, "to_size": m.ToSize, "from_size": m.FromSize, "outcome": res, "failed_clauses": failed})
	t.Logf("REPLAY-RESULT %s", js)
}
