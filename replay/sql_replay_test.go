//go:build verif

package sql

// Replay for the SQL store obligations (C06, C07, C03.sq, C16.sq) on the REAL code: the verified scenario functions
// (harness_verif.go: WriteOps -> GetLatest -> Set -> Close, and the refused and read-only variants) are run against
// a real sqlite3 database file through a fault-injecting database/sql driver that wraps the real driver.  For every
// operation index k the run is repeated with (a) operation k failing with an error and (b) the process "dying" at
// operation k (nothing after it reaches the database; the file is then re-opened with the plain driver), and the
// clauses of the scenario contracts are evaluated in executable form.
// Injected with `go test -tags verif -overlay`; never written into /repo.  Output: one line `REPLAY-RESULT {json}`.

import (
	"bytes"
	"database/sql"
	"database/sql/driver"
	"encoding/json"
	"errors"
	"fmt"
	"os"
	"path/filepath"
	"sync"
	"testing"

	sqlite3 "github.com/mattn/go-sqlite3"
	"google.golang.org/grpc/codes"
	"google.golang.org/grpc/status"
)

type vrCtl struct {
	mu       sync.Mutex
	op       int // operations seen so far
	failAt   int // this operation fails with an error (-1: none)
	crashAt  int // from this operation on nothing reaches the database (-1: none)
	openTx   int
	openRows int
	nBegin   int
	nTxExec  int
	nDBExec  int
	nCommit  int // commits that reached the database
	commitOK int
	log      []string
}

var errInjected = errors.New("replay: injected storage failure")
var errCrashed = errors.New("replay: process died")

// step counts one operation and says whether it must fail (and how).
func (c *vrCtl) step(what string) error {
	c.mu.Lock()
	defer c.mu.Unlock()
	k := c.op
	c.op++
	c.log = append(c.log, fmt.Sprintf("%d:%s", k, what))
	if c.crashAt >= 0 && k >= c.crashAt {
		return errCrashed
	}
	if k == c.failAt {
		return errInjected
	}
	return nil
}

type vrDriver struct{ inner driver.Driver }

var vrCurrent *vrCtl // the controller of the run in progress (runs are sequential)

func (d *vrDriver) Open(name string) (driver.Conn, error) {
	c, err := d.inner.Open(name)
	if err != nil {
		return nil, err
	}
	return &vrConn{inner: c, ctl: vrCurrent}, nil
}

type vrConn struct {
	inner driver.Conn
	ctl   *vrCtl
	inTx  bool
}

func (c *vrConn) Prepare(q string) (driver.Stmt, error) {
	s, err := c.inner.Prepare(q)
	if err != nil {
		return nil, err
	}
	return &vrStmt{inner: s, conn: c, q: q}, nil
}
func (c *vrConn) Close() error { return c.inner.Close() }
func (c *vrConn) Begin() (driver.Tx, error) {
	c.ctl.mu.Lock()
	c.ctl.nBegin++
	c.ctl.mu.Unlock()
	if err := c.ctl.step("begin"); err != nil {
		return nil, err
	}
	tx, err := c.inner.Begin() //nolint
	if err != nil {
		return nil, err
	}
	c.inTx = true
	c.ctl.mu.Lock()
	c.ctl.openTx++
	c.ctl.mu.Unlock()
	return &vrTx{inner: tx, conn: c}, nil
}

type vrTx struct {
	inner driver.Tx
	conn  *vrConn
}

func (t *vrTx) done() {
	t.conn.inTx = false
	t.conn.ctl.mu.Lock()
	t.conn.ctl.openTx--
	t.conn.ctl.mu.Unlock()
}
func (t *vrTx) Commit() error {
	if err := t.conn.ctl.step("commit"); err != nil {
		_ = t.inner.Rollback() // a commit that fails (or never happens) leaves nothing behind
		t.done()
		return err
	}
	t.conn.ctl.mu.Lock()
	t.conn.ctl.nCommit++
	t.conn.ctl.mu.Unlock()
	err := t.inner.Commit()
	if err == nil {
		t.conn.ctl.mu.Lock()
		t.conn.ctl.commitOK++
		t.conn.ctl.mu.Unlock()
	}
	t.done()
	return err
}
func (t *vrTx) Rollback() error {
	err := t.conn.ctl.step("rollback")
	_ = t.inner.Rollback()
	t.done()
	return err
}

type vrStmt struct {
	inner driver.Stmt
	conn  *vrConn
	q     string
}

func (s *vrStmt) Close() error  { return s.inner.Close() }
func (s *vrStmt) NumInput() int { return s.inner.NumInput() }
func (s *vrStmt) Exec(args []driver.Value) (driver.Result, error) {
	s.conn.ctl.mu.Lock()
	if s.conn.inTx {
		s.conn.ctl.nTxExec++
	} else {
		s.conn.ctl.nDBExec++
	}
	s.conn.ctl.mu.Unlock()
	if err := s.conn.ctl.step("exec"); err != nil {
		return nil, err
	}
	return s.inner.Exec(args) //nolint
}
func (s *vrStmt) Query(args []driver.Value) (driver.Rows, error) {
	if err := s.conn.ctl.step("query"); err != nil {
		return nil, err
	}
	r, err := s.inner.Query(args) //nolint
	if err != nil {
		return nil, err
	}
	s.conn.ctl.mu.Lock()
	s.conn.ctl.openRows++
	s.conn.ctl.mu.Unlock()
	return &vrRows{inner: r, ctl: s.conn.ctl}, nil
}

type vrRows struct {
	inner  driver.Rows
	ctl    *vrCtl
	closed bool
}

func (r *vrRows) Columns() []string { return r.inner.Columns() }
func (r *vrRows) Close() error {
	if !r.closed {
		r.closed = true
		r.ctl.mu.Lock()
		r.ctl.openRows--
		r.ctl.mu.Unlock()
	}
	return r.inner.Close()
}
func (r *vrRows) Next(dest []driver.Value) error {
	if err := r.ctl.step("next"); err != nil {
		return err
	}
	return r.inner.Next(dest)
}

var vrRegister sync.Once

func TestVerifReplaySQL(t *testing.T) {
	if os.Getenv("VERIF_REPLAY_MODEL") == "" {
		t.Skip("no model")
	}
	vrRegister.Do(func() { sql.Register("vrfault", &vrDriver{inner: &sqlite3.SQLiteDriver{}}) })
	failed := map[string]string{}
	fail := func(tag, why string) {
		if _, dup := failed[tag]; !dup {
			failed[tag] = why
		}
	}
	dir := t.TempDir()
	const id, other = "log-A", "log-B"
	oldVal, otherVal, newVal := []byte("old checkpoint"), []byte("other log's checkpoint"), []byte("new checkpoint")
	// readBack opens the file with the plain driver: what a restarted process would find.
	readBack := func(path, key string) (bool, []byte) {
		db, err := sql.Open("sqlite3", path)
		if err != nil {
			t.Fatal(err)
		}
		defer db.Close()
		var v []byte
		err = db.QueryRow("SELECT chkpt FROM chkpts WHERE logID = ?", key).Scan(&v)
		if err == sql.ErrNoRows {
			return false, nil
		}
		if err != nil {
			t.Fatalf("read back: %v", err)
		}
		return true, v
	}
	runs := 0
	for _, hasOld := range []bool{false, true} {
		for _, scenario := range []string{"write", "refuse", "read", "logs"} {
			for _, mode := range []string{"none", "fail", "crash"} {
				for k := 0; k < 10; k++ {
					if mode == "none" && k > 0 {
						break
					}
					runs++
					path := filepath.Join(dir, fmt.Sprintf("db-%d.sqlite", runs))
					// prepare the initial state with the plain driver
					{
						db, err := sql.Open("sqlite3", path)
						if err != nil {
							t.Fatal(err)
						}
						p := &sqlLogPersistence{db: db}
						if err := p.Init(); err != nil {
							t.Fatal(err)
						}
						if _, err := db.Exec(`INSERT OR REPLACE INTO chkpts (logID, chkpt) VALUES (?, ?)`, other, otherVal); err != nil {
							t.Fatal(err)
						}
						if hasOld {
							if _, err := db.Exec(`INSERT OR REPLACE INTO chkpts (logID, chkpt) VALUES (?, ?)`, id, oldVal); err != nil {
								t.Fatal(err)
							}
						}
						db.Close()
					}
					ctl := &vrCtl{failAt: -1, crashAt: -1}
					switch mode {
					case "fail":
						ctl.failAt = k
					case "crash":
						ctl.crashAt = k
					}
					vrCurrent = ctl
					db, err := sql.Open("vrfault", path)
					if err != nil {
						t.Fatal(err)
					}
					p := &sqlLogPersistence{db: db}
					name := fmt.Sprintf("%s/old=%v/%s@%d", scenario, hasOld, mode, k)
					var werr, gerr, serr error
					var seen []byte
					var logs []string
					var lerr error
					switch scenario {
					case "write":
						werr, seen, gerr, serr = verifScenarioWrite(p, id, newVal)
					case "refuse":
						werr, seen, gerr = verifScenarioRefuse(p, id)
					case "read":
						seen, gerr = verifScenarioRead(p, id)
					case "logs":
						logs, lerr = p.Logs()
					}
					trace := fmt.Sprint(ctl.log)
					// C07.open / C07.rows: nothing stays open after the operation returned
					if ctl.openTx != 0 {
						fail("C07.open", fmt.Sprintf("%s: %d transaction(s) left open after return; driver trace %s", name, ctl.openTx, trace))
					}
					if ctl.openRows != 0 {
						fail("C07.rows", fmt.Sprintf("%s: %d cursor(s) left open after return; driver trace %s", name, ctl.openRows, trace))
						fail("C07.open", fmt.Sprintf("%s: %d cursor(s) left open after return", name, ctl.openRows))
					}
					db.Close()
					has, val := readBack(path, id)
					ohas, oval := readBack(path, other)
					unchanged := has == hasOld && (!has || bytes.Equal(val, oldVal))
					isNew := has && bytes.Equal(val, newVal)
					// C06.ci: at every instant the log's row is the old or the new checkpoint, other rows untouched
					if !(unchanged || (scenario == "write" && isNew)) {
						fail("C06.ci", fmt.Sprintf("%s: stored row is neither the old nor the new checkpoint: present=%v %q; driver trace %s", name, has, val, trace))
					}
					if !ohas || !bytes.Equal(oval, otherVal) {
						fail("C06.ci", fmt.Sprintf("%s: another log's row changed: present=%v %q", name, ohas, oval))
						fail("C12.sq", fmt.Sprintf("%s: another log's row changed", name))
					}
					switch scenario {
					case "write":
						if serr == nil && !(isNew && ctl.commitOK == 1) {
							fail("C06.ack", fmt.Sprintf("%s: success reported but a restarted process finds present=%v %q (commits that succeeded: %d); driver trace %s", name, has, val, ctl.commitOK, trace))
						}
						if ctl.nDBExec != 0 || ctl.nCommit > 1 || ctl.nTxExec > 1 {
							fail("C06.tx", fmt.Sprintf("%s: %d statements outside the transaction, %d commits, %d statements inside", name, ctl.nDBExec, ctl.nCommit, ctl.nTxExec))
						}
						if ctl.nCommit == 0 && !unchanged {
							fail("C06.na", fmt.Sprintf("%s: no commit reached the database but the stored row changed", name))
						}
						if werr != nil && (serr == nil || ctl.nTxExec != 0 || ctl.nCommit != 0) {
							fail("C07.wo", fmt.Sprintf("%s: WriteOps failed (%v) but serr=%v, statements=%d, commits=%d", name, werr, serr, ctl.nTxExec, ctl.nCommit))
						}
					case "refuse", "read":
						if !unchanged || ctl.nCommit != 0 || ctl.nTxExec != 0 {
							fail("C03.sq", fmt.Sprintf("%s: a refused update / read changed the database (commits %d, statements %d)", name, ctl.nCommit, ctl.nTxExec))
							fail("C06.na", fmt.Sprintf("%s: a refused update / read changed the database", name))
						}
					}
					if scenario != "logs" {
						if werr == nil && gerr == nil && !(hasOld && bytes.Equal(seen, oldVal)) {
							fail("C07.rd", fmt.Sprintf("%s: read succeeded with %q but the stored row is present=%v %q", name, seen, hasOld, oldVal))
							fail("C16.sq", fmt.Sprintf("%s: read succeeded with %q but the stored row is present=%v", name, seen, hasOld))
						}
						if gerr != nil && status.Code(gerr) == codes.NotFound && hasOld {
							fail("C07.nf", fmt.Sprintf("%s: NotFound reported (%v) although the log has a stored checkpoint; driver trace %s", name, gerr, trace))
							fail("C16.sq", fmt.Sprintf("%s: NotFound reported although the log has a stored checkpoint", name))
						}
					} else if lerr == nil && mode == "none" {
						want := 1
						if hasOld {
							want = 2
						}
						if len(logs) != want {
							fail("C16.sq", fmt.Sprintf("%s: Logs() = %v, want %d IDs", name, logs, want))
						}
					}
				}
			}
		}
	}
	out, _ := json.Marshal(map[string]interface{}{"realisable": true, "runs": runs, "failed_clauses": failed})
	t.Logf("REPLAY-RESULT %s", out)
}
