package http

// Replay for the read-API obligations (C16) on the REAL code: real witness (in-memory store) behind the real
// handlers registered on a real mux router; the bundled HTTP client reads back.  Histories of accepted and refused
// updates over logs whose IDs come from log.ID; checkpoints contain '%' and other bytes that must be served verbatim.
// Injected with `go test -overlay`.  Output: `REPLAY-RESULT {json}`.

import (
	"net/http"
	"strings"
	"bytes"
	"context"
	"crypto/rand"
	"encoding/json"
	"errors"
	"fmt"
	"io"
	"net/http/httptest"
	"net/url"
	"os"
	"sort"
	"testing"

	"github.com/gorilla/mux"
	"github.com/transparency-dev/formats/log"
	f_note "github.com/transparency-dev/formats/note"
	"github.com/transparency-dev/merkle/rfc6962"
	"github.com/transparency-dev/witness/api"
	wclient "github.com/transparency-dev/witness/client/http"
	"github.com/transparency-dev/witness/internal/persistence/inmemory"
	"github.com/transparency-dev/witness/internal/witness"
	"github.com/transparency-dev/witness/monitoring"
	"golang.org/x/mod/sumdb/note"
)

func TestVerifReplayReadAPI(t *testing.T) {
	if os.Getenv("VERIF_REPLAY_MODEL") == "" {
		t.Skip("no model")
	}
	monitoring.SetMetricFactory(monitoring.InertMetricFactory{})
	wSK, _, _ := note.GenerateKey(rand.Reader, "witness.example")
	wS, _ := f_note.NewSignerForCosignatureV1(wSK)
	known := map[string]witness.LogInfo{}
	type lg struct {
		id, origin string
		s          note.Signer
	}
	var logs []lg
	for i, origin := range []string{"a.example/log", "b.example/100%25-verified", "c.example/never-updated", "d.example/refused-only"} {
		sk, pk, _ := note.GenerateKey(rand.Reader, fmt.Sprintf("log%d", i))
		s, _ := note.NewSigner(sk)
		v, _ := note.NewVerifier(pk)
		id := log.ID(origin)
		known[id] = witness.LogInfo{SigV: v, Origin: origin, Hasher: rfc6962.DefaultHasher}
		logs = append(logs, lg{id, origin, s})
	}
	w, err := witness.New(witness.Opts{Persistence: inmemory.NewPersistence(), Signers: []note.Signer{wS}, KnownLogs: known})
	if err != nil {
		t.Fatal(err)
	}
	mk := func(l lg, s note.Signer, ext string) []byte {
		cp := log.Checkpoint{Origin: l.origin, Size: 1, Hash: bytes.Repeat([]byte{3}, 32)}
		msg, _ := note.Sign(&note.Note{Text: string(cp.Marshal()) + ext}, s)
		return msg
	}
	stored := map[string][]byte{}
	ctx := context.Background()
	for i, l := range logs[:2] {
		ext := "utilisation: 85%\n"
		if i == 1 {
			// a large checkpoint (many extension lines): the server sends it chunked, without Content-Length, and it is
			// larger than any small fixed buffer or cap a client might use
			ext = strings.Repeat("extension line with some padding to make the checkpoint large: 85%\n", 1100)
		}
		out, err := w.Update(ctx, l.id, 0, mk(l, l.s, ext), nil)
		if err != nil {
			t.Fatalf("setup: %v", err)
		}
		stored[l.id] = out
	}
	// a refused first submission (signed by the wrong key) must create no entry
	if _, err := w.Update(ctx, logs[3].id, 0, mk(logs[3], logs[0].s, ""), nil); err == nil {
		t.Fatal("setup: forged checkpoint accepted")
	}
	r := mux.NewRouter()
	NewServer(w).RegisterHandlers(r)
	srv := httptest.NewServer(r)
	defer srv.Close()
	u, _ := url.Parse(srv.URL)
	cl := wclient.NewWitness(u, srv.Client())
	failed := map[string]string{}
	chk := func(tag string, ok bool, why string) {
		if !ok {
			if _, dup := failed[tag]; !dup {
				failed[tag] = why
			}
		}
	}
	for _, l := range logs {
		resp, err := srv.Client().Get(srv.URL + fmt.Sprintf(api.HTTPGetCheckpoint, l.id))
		if err != nil {
			t.Fatal(err)
		}
		body, _ := io.ReadAll(resp.Body)
		resp.Body.Close()
		got, cerr := cl.GetLatestCheckpoint(ctx, l.id)
		if want, ok := stored[l.id]; ok {
			for _, tag := range []string{"C16.h1", "C16.h3", "C16.g"} {
				chk(tag, resp.StatusCode == 200 && bytes.Equal(body, want), fmt.Sprintf("GET %s: status %d, body differs from the stored checkpoint: %v", l.origin, resp.StatusCode, !bytes.Equal(body, want)))
			}
			chk("C16.c3", cerr == nil && bytes.Equal(got, want), fmt.Sprintf("client for %s (stored checkpoint of %d bytes): got %d bytes, err %v", l.origin, len(want), len(got), cerr))
			chk("C16.c6", !errors.Is(cerr, os.ErrNotExist), fmt.Sprintf("client for %s: 'does not exist' although the witness serves a checkpoint of %d bytes with status 200", l.origin, len(want)))
		} else {
			chk("C16.h2", resp.StatusCode == 404, fmt.Sprintf("GET %s (no checkpoint): status %d", l.origin, resp.StatusCode))
			chk("C16.c2", errors.Is(cerr, os.ErrNotExist) && got == nil, fmt.Sprintf("client for %s: (%q, %v), want os.ErrNotExist", l.origin, got, cerr))
		}
	}
	for _, odd := range []string{"unknown-id", "0000", "a-b"} {
		resp, _ := srv.Client().Get(srv.URL + fmt.Sprintf(api.HTTPGetCheckpoint, odd))
		if resp != nil {
			chk("C16.h2", resp.StatusCode == 404, fmt.Sprintf("GET odd id %q: status %d", odd, resp.StatusCode))
			resp.Body.Close()
		}
	}
	// syntactically odd IDs built around a REAL log's ID: never that log's checkpoint, neither from the server (no
	// redirect to the cleaned path) nor through the bundled client (which must not resolve the ID as a path)
	noRedirect := &http.Client{CheckRedirect: func(*http.Request, []*http.Request) error { return http.ErrUseLastResponse }}
	real := logs[0].id
	for _, odd := range []string{"./" + real, real + "/.", "x/../" + real, "%2F" + real, real + "%2F", "..", "."} {
		if resp, err := noRedirect.Get(srv.URL + fmt.Sprintf(api.HTTPGetCheckpoint, odd)); err == nil {
			chk("C16.route", resp.StatusCode == 404, fmt.Sprintf("GET with the odd id %q: status %d (Location %q), want 404", odd, resp.StatusCode, resp.Header.Get("Location")))
			resp.Body.Close()
		}
		got, cerr := cl.GetLatestCheckpoint(ctx, odd)
		chk("C16.route", cerr != nil && got == nil, fmt.Sprintf("client asked for the odd id %q: got %d bytes, err %v -- the checkpoint of log %s", odd, len(got), cerr, real))
		chk("C16.c2", cerr != nil, fmt.Sprintf("client asked for the odd id %q and got a checkpoint", odd))
	}
	resp, _ := srv.Client().Get(srv.URL + api.HTTPGetLogs)
	var ids []string
	body, _ := io.ReadAll(resp.Body)
	resp.Body.Close()
	_ = json.Unmarshal(body, &ids)
	sort.Strings(ids)
	want := []string{logs[0].id, logs[1].id}
	sort.Strings(want)
	chk("C16.l1", fmt.Sprint(ids) == fmt.Sprint(want), fmt.Sprintf("log list %v, want %v", ids, want))
	chk("C16.logs", fmt.Sprint(ids) == fmt.Sprint(want), fmt.Sprintf("log list %v, want %v", ids, want))
	js, _ := json.Marshal(map[string]interface{}{"realisable": true, "failed_clauses": failed})
	t.Logf("REPLAY-RESULT %s", js)
}
