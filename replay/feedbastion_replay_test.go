package main

// Replay for cmd/feedbastion's witness client on the REAL code: what (*bastionClient).Update writes for a given old size, proof
// and checkpoint must be the add-checkpoint body for exactly those (C11.wr), and the request must end with the caller's
// context (C13.ctx / C19.ctx).  Injected with `go test -overlay`; never written into /repo.  Output: `REPLAY-RESULT {json}`.

import (
	"bytes"
	"context"
	"encoding/base64"
	"encoding/json"
	"fmt"
	"io"
	"net/http"
	"net/http/httptest"
	"os"
	"testing"
	"time"
)

func TestVerifReplayFeedBastion(t *testing.T) {
	if os.Getenv("VERIF_REPLAY_MODEL") == "" {
		t.Skip("no model")
	}
	failed := map[string]string{}
	fail := func(tag, why string) {
		if _, dup := failed[tag]; !dup {
			failed[tag] = why
		}
	}
	var got []byte
	srv := httptest.NewServer(http.HandlerFunc(func(w http.ResponseWriter, r *http.Request) {
		got, _ = io.ReadAll(r.Body)
		w.WriteHeader(200)
	}))
	defer srv.Close()
	cp := []byte("example.com/log\n7\nAAAAAAAAAAAAAAAAAAAAAAAAAAAAAAAAAAAAAAAAAAA=\n\n— example.com/log AAAA\n")
	for _, n := range []uint64{0, 1, 5, 1<<63 + 1, 1<<64 - 1} {
		for _, k := range []int{0, 1, 3} {
			var proof [][]byte
			want := fmt.Sprintf("old %d\n", n)
			for i := 0; i < k; i++ {
				h := bytes.Repeat([]byte{byte(0xf8 + i)}, 32)
				proof = append(proof, h)
				want += base64.StdEncoding.EncodeToString(h) + "\n"
			}
			want += "\n" + string(cp)
			b := &bastionClient{httpClient: srv.Client(), url: srv.URL, originByLogID: map[string]string{}}
			got = nil
			if _, err := b.Update(context.Background(), "id", n, cp, proof); err != nil {
				fail("C11.wr", fmt.Sprintf("Update failed: %v", err))
				continue
			}
			if string(got) != want {
				fail("C11.wr", fmt.Sprintf("old size %d with %d hashes: the body written starts %q, want %q", n, k, firstLine(got), fmt.Sprintf("old %d", n)))
			}
		}
	}
	// a bastion that never answers, a client without a timeout: Update must end with its context
	release := make(chan struct{})
	silent := httptest.NewServer(http.HandlerFunc(func(w http.ResponseWriter, r *http.Request) { <-release }))
	defer silent.Close()
	defer close(release)
	ctx, cancel := context.WithTimeout(context.Background(), 300*time.Millisecond)
	defer cancel()
	done := make(chan struct{})
	go func() {
		b := &bastionClient{httpClient: &http.Client{}, url: silent.URL, originByLogID: map[string]string{}}
		_, _ = b.Update(ctx, "id", 0, cp, nil)
		close(done)
	}()
	select {
	case <-done:
	case <-time.After(3 * time.Second):
		why := "a bastion that never answers: Update is still waiting 2.7s after its 300ms context ended"
		fail("C13.ctx", why)
		fail("C19.ctx", why)
	}
	js, _ := json.Marshal(map[string]interface{}{"realisable": true, "failed_clauses": failed})
	t.Logf("REPLAY-RESULT %s", js)
}

func firstLine(b []byte) string {
	if i := bytes.IndexByte(b, '\n'); i >= 0 {
		return string(b[:i])
	}
	return string(b)
}
