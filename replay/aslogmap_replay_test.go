package omniwitness

// Replay for LogConfig.AsLogMap and config.NewLog (C02.m, C02.n, C12.k, C12.d, C12.new) on the REAL code: a matrix of
// configurations (distinct logs, several logs sharing one key, two logs sharing an origin, a malformed key, a key
// string whose name+hash prefix belongs to another configured log's key) is loaded and the contract clauses are
// evaluated in executable form: every entry is filed under log.ID(its origin); every configured log has an entry with
// its origin and a verifier that is the verifier of ITS key (it opens notes signed by that log's key and no others);
// configurations that would share an ID are refused; a configuration with an unusable key is refused.
// Injected with `go test -overlay`.  Output: one line `REPLAY-RESULT {json}`.

import (
	"crypto/rand"
	"encoding/json"
	"fmt"
	"os"
	"strings"
	"testing"

	logfmt "github.com/transparency-dev/formats/log"
	f_note "github.com/transparency-dev/formats/note"
	"github.com/transparency-dev/witness/internal/config"
	"golang.org/x/mod/sumdb/note"
)

type vrKey struct {
	sk, vk string
	signer note.Signer
}

func vrNewKey(t *testing.T, name string) vrKey {
	sk, vk, err := note.GenerateKey(rand.Reader, name)
	if err != nil {
		t.Fatal(err)
	}
	s, err := note.NewSigner(sk)
	if err != nil {
		t.Fatal(err)
	}
	return vrKey{sk: sk, vk: vk, signer: s}
}

// opens reports whether v accepts a note signed by k.
func vrOpens(v note.Verifier, k vrKey) bool {
	msg, err := note.Sign(&note.Note{Text: "replay\n"}, k.signer)
	if err != nil {
		return false
	}
	_, err = note.Open(msg, note.VerifierList(v))
	return err == nil
}

func TestVerifReplayAsLogMap(t *testing.T) {
	if os.Getenv("VERIF_REPLAY_MODEL") == "" {
		t.Skip("no model")
	}
	failed := map[string]string{}
	fail := func(tag, why string) {
		if _, dup := failed[tag]; !dup {
			failed[tag] = why
		}
	}
	kA, kB, kC := vrNewKey(t, "log-a"), vrNewKey(t, "log-b"), vrNewKey(t, "log-a") // kC: same NAME as kA, other key
	// a key string carrying kA's "<name>+<hash>" prefix and kB's key material
	pa, pb := strings.SplitN(kA.vk, "+", 3), strings.SplitN(kB.vk, "+", 3)
	stale := pa[0] + "+" + pa[1] + "+" + pb[2]
	type entry struct {
		origin string
		pk     string
		key    *vrKey // the key whose signatures the entry must accept (nil: the key string is unusable)
	}
	cases := map[string][]entry{
		"two distinct logs":               {{"example.com/a", kA.vk, &kA}, {"example.com/b", kB.vk, &kB}},
		"three shards sharing one key":    {{"shard/1", kA.vk, &kA}, {"shard/2", kA.vk, &kA}, {"shard/3", kA.vk, &kA}},
		"same key name, different keys":   {{"example.com/a", kA.vk, &kA}, {"example.com/c", kC.vk, &kC}},
		"two logs sharing an origin":      {{"example.com/a", kA.vk, &kA}, {"example.com/a", kB.vk, &kB}},
		"malformed key":                   {{"example.com/a", kA.vk, &kA}, {"example.com/b", "not a key", nil}},
		"stale name+hash prefix, 2nd log": {{"example.com/a", kA.vk, &kA}, {"example.com/b", stale, nil}},
		"origin with trailing space":      {{"example.com/a ", kA.vk, &kA}, {"example.com/b", kB.vk, &kB}},
		"empty configuration":             {},
	}
	for name, es := range cases {
		var cfg LogConfig
		ids := map[string]int{}
		usable, collide := true, false
		for _, e := range es {
			cfg.Logs = append(cfg.Logs, LogInfo{Origin: e.origin, PublicKey: e.pk})
			if e.key == nil {
				usable = false
			} else if _, err := f_note.NewVerifier(e.pk); err != nil {
				t.Fatalf("%s: test key unusable: %v", name, err)
			}
			ids[logfmt.ID(e.origin)]++
			if ids[logfmt.ID(e.origin)] > 1 {
				collide = true
			}
		}
		m, err := cfg.AsLogMap()
		if err != nil {
			if m != nil {
				fail("C12.d", fmt.Sprintf("%s: error %v together with a map", name, err))
			}
			continue
		}
		if m == nil {
			fail("C02.m", name+": nil map without error")
			continue
		}
		if collide {
			fail("C12.d", name+": two configured logs share an ID and the configuration was accepted")
		}
		if !usable {
			fail("C02.n", name+": a configured log has a key string from which no verifier can be made, and the configuration was accepted")
		}
		for k, li := range m {
			if k != logfmt.ID(li.Origin) {
				fail("C02.m", fmt.Sprintf("%s: entry with origin %q is filed under %s, not under log.ID(origin) = %s", name, li.Origin, k, logfmt.ID(li.Origin)))
				fail("C12.k", fmt.Sprintf("%s: entry with origin %q is filed under another ID", name, li.Origin))
			}
		}
		for j, e := range es {
			li, ok := m[logfmt.ID(e.origin)]
			if !ok || li.Origin != e.origin {
				fail("C02.n", fmt.Sprintf("%s: configured log %d (%q) has no entry under its ID, or one with origin %q", name, j, e.origin, li.Origin))
				fail("C12.k", fmt.Sprintf("%s: configured log %d (%q) has no entry under its ID", name, j, e.origin))
				continue
			}
			if e.key == nil || li.SigV == nil {
				continue
			}
			if !vrOpens(li.SigV, *e.key) {
				fail("C02.n", fmt.Sprintf("%s: the verifier filed for %q does not accept signatures by that log's configured key", name, e.origin))
			}
			for _, o := range []vrKey{kA, kB, kC} {
				if o.vk != e.key.vk && vrOpens(li.SigV, o) {
					fail("C02.n", fmt.Sprintf("%s: the verifier filed for %q accepts signatures by ANOTHER key (%s)", name, e.origin, o.signer.Name()))
				}
			}
		}
	}
	// config.NewLog: the ID every other component uses
	for _, origin := range []string{"example.com/a", "example.com/a ", " x", "go.sum database tree"} {
		l, err := config.NewLog(origin, kA.vk, "http://example.com/")
		if err != nil {
			fail("C12.new", fmt.Sprintf("NewLog(%q) with a usable key failed: %v", origin, err))
			continue
		}
		if l.ID != logfmt.ID(origin) || l.Origin != origin || l.URL != "http://example.com/" {
			fail("C12.new", fmt.Sprintf("NewLog(%q) = {ID %s, Origin %q, URL %q}, want ID %s and the origin and URL unchanged", origin, l.ID, l.Origin, l.URL, logfmt.ID(origin)))
		}
		if l.Verifier == nil || !vrOpens(l.Verifier, kA) || vrOpens(l.Verifier, kB) {
			fail("C12.new", fmt.Sprintf("NewLog(%q): verifier is not the verifier of the configured key", origin))
		}
	}
	if _, err := config.NewLog("example.com/a", "not a key", ""); err == nil {
		fail("C12.new", "NewLog with an unusable key succeeded")
	}
	out, _ := json.Marshal(map[string]interface{}{"realisable": true, "cases": len(cases), "failed_clauses": failed})
	t.Logf("REPLAY-RESULT %s", out)
}
