package feeder

// Replay for the feeder obligations (C13) on the REAL code: FeedOnce is run against a recording witness and a
// recording log over a small matrix of situations (witness has nothing / is behind / is level / is ahead;
// transient failures of get-latest, fetch-proof and update), and the clauses of the contract of one attempt are
// evaluated on the recorded trace.  Injected with `go test -overlay`.  Output: one line `REPLAY-RESULT {json}`.

import (
	"bytes"
	"context"
	"crypto/rand"
	"encoding/json"
	"errors"
	"fmt"
	"os"
	"testing"
	"time"

	"github.com/transparency-dev/formats/log"
	"golang.org/x/mod/sumdb/note"
)

type vrEvent struct {
	Kind    string // get, proof, update
	OldSize uint64
	From    uint64
	To      uint64
	CP      []byte
	Proof   [][]byte
	Err     bool
	Out     []byte
}

type vrWit struct {
	latest  []byte
	failGet int
	failUpd int
	ev      *[]vrEvent
}

func (w *vrWit) GetLatestCheckpoint(ctx context.Context, id string) ([]byte, error) {
	if w.failGet > 0 {
		w.failGet--
		*w.ev = append(*w.ev, vrEvent{Kind: "get", Err: true})
		return nil, errors.New("transient get failure")
	}
	*w.ev = append(*w.ev, vrEvent{Kind: "get", Out: w.latest})
	if w.latest == nil {
		return nil, os.ErrNotExist
	}
	return w.latest, nil
}

func (w *vrWit) Update(ctx context.Context, id string, oldSize uint64, cp []byte, proof [][]byte) ([]byte, error) {
	e := vrEvent{Kind: "update", OldSize: oldSize, CP: cp, Proof: proof}
	if w.failUpd > 0 {
		w.failUpd--
		e.Err = true
		*w.ev = append(*w.ev, e)
		return nil, errors.New("transient update failure")
	}
	e.Out = append([]byte("cosigned:"), cp...)
	*w.ev = append(*w.ev, e)
	return e.Out, nil
}

func TestVerifReplayFeeder(t *testing.T) {
	if os.Getenv("VERIF_REPLAY_MODEL") == "" {
		t.Skip("no model")
	}
	const origin = "replay.example/log"
	sk, pk, _ := note.GenerateKey(rand.Reader, "replaylog")
	signer, _ := note.NewSigner(sk)
	verifier, _ := note.NewVerifier(pk)
	mk := func(size uint64, fill byte) []byte {
		cp := log.Checkpoint{Origin: origin, Size: size, Hash: bytes.Repeat([]byte{fill}, 32)}
		msg, _ := note.Sign(&note.Note{Text: string(cp.Marshal())}, signer)
		return msg
	}
	failed := map[string]string{}
	chk := func(tag string, ok bool, why string) {
		if !ok {
			if _, dup := failed[tag]; !dup {
				failed[tag] = why
			}
		}
	}
	ran := 0
	for _, wsize := range []uint64{0, 3, 5, 8} { // 0 = witness has nothing; submitted checkpoint has size 5
		for _, fail := range []string{"none", "get", "proof", "update"} {
			ran++
			var ev []vrEvent
			w := &vrWit{ev: &ev}
			if wsize > 0 {
				fill := byte(wsize)
				if wsize == 5 {
					fill = 5
				}
				w.latest = mk(wsize, fill)
			}
			failProof := 0
			switch fail {
			case "get":
				w.failGet = 1
			case "update":
				w.failUpd = 1
			case "proof":
				failProof = 1
			}
			submitted := mk(5, 5)
			opts := FeedOpts{
				LogID: "id", LogOrigin: origin, LogSigVerifier: verifier, Witness: w,
				FetchCheckpoint: func(context.Context) ([]byte, error) { return submitted, nil },
				FetchProof: func(_ context.Context, from, to log.Checkpoint) ([][]byte, error) {
					if failProof > 0 {
						failProof--
						ev = append(ev, vrEvent{Kind: "proof", From: from.Size, To: to.Size, Err: true})
						return nil, errors.New("transient proof failure")
					}
					p := [][]byte{[]byte(fmt.Sprintf("proof %d->%d", from.Size, to.Size))}
					ev = append(ev, vrEvent{Kind: "proof", From: from.Size, To: to.Size, Proof: p})
					return p, nil
				},
			}
			ctx, cancel := context.WithTimeout(context.Background(), 3*time.Second)
			out, err := FeedOnce(ctx, opts)
			cancel()
			name := fmt.Sprintf("witness@%d/fail=%s", wsize, fail)
			// split the trace into attempts: each starts with a get
			var attempts [][]vrEvent
			for _, e := range ev {
				if e.Kind == "get" {
					attempts = append(attempts, nil)
				}
				if len(attempts) == 0 {
					chk("C13.2", false, name+": an event before any GetLatestCheckpoint: "+e.Kind)
					attempts = append(attempts, nil)
				}
				attempts[len(attempts)-1] = append(attempts[len(attempts)-1], e)
			}
			for _, a := range attempts {
				gets, upds, proofs := 0, 0, 0
				var get, upd, pr vrEvent
				for _, e := range a {
					switch e.Kind {
					case "get":
						gets++
						get = e
					case "update":
						upds++
						upd = e
					case "proof":
						proofs++
						pr = e
					}
				}
				chk("C13.1", gets == 1 && upds <= 1 && proofs <= 1, fmt.Sprintf("%s: attempt with %d gets, %d updates, %d proofs", name, gets, upds, proofs))
				if upds == 1 {
					chk("C13.2", !get.Err && bytes.Equal(upd.CP, submitted), name+": update after a failed get, or with other bytes")
					if len(get.Out) > 0 {
						chk("C13.3", upd.OldSize == wsize, fmt.Sprintf("%s: old size %d, witness reported %d", name, upd.OldSize, wsize))
					} else {
						chk("C13.3", upd.OldSize == 0, fmt.Sprintf("%s: old size %d with no witness checkpoint", name, upd.OldSize))
					}
					same := wsize == 5
					if same {
						chk("C13.4", len(upd.Proof) == 0 && proofs == 0, name+": refresh with a proof")
					} else {
						chk("C13.4", proofs == 1 && !pr.Err && pr.To == 5 && pr.From == wsize && len(upd.Proof) == 1 && bytes.Equal(upd.Proof[0], pr.Proof[0]), fmt.Sprintf("%s: proof request %d->%d, want %d->5", name, pr.From, pr.To, wsize))
					}
					chk("C13.5", wsize <= 5, name+": submitted although the witness is ahead")
				}
				if proofs == 1 && pr.Err {
					chk("C13.6", upds == 0, name+": update after a failed proof fetch")
				}
			}
			if wsize == 8 {
				chk("C13.5", err != nil, name+": success although the witness is ahead")
			} else {
				chk("C13.7", err == nil && bytes.HasPrefix(out, []byte("cosigned:")) && bytes.Equal(out[len("cosigned:"):], submitted), fmt.Sprintf("%s: FeedOnce = (%q, %v), want the witness's cosigned checkpoint after the transient failure cleared", name, out, err))
				chk("C13.8", err == nil && bytes.HasPrefix(out, []byte("cosigned:")), name+": result is not what the last update returned")
				chk("C13.9", err == nil, name+": failed")
			}
		}
	}
	js, _ := json.Marshal(map[string]interface{}{"realisable": true, "scenarios": ran, "failed_clauses": failed})
	t.Logf("REPLAY-RESULT %s", js)
}
