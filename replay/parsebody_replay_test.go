package bastion

// Replay for parseBody's obligations (C11) on the REAL code.  The solver's countermodels speak about uninterpreted
// renderings (encodings, lines), so the replay evaluates the contract's clauses in executable form over a matrix
// of concrete requests instead of one model: round trip (C11.rt), zero values on refusal (C11.z), well-formed
// old-size line (C11.w), a non-base64 proof line is refused (C11.b), truncated input is refused (C11.t, C11.e).
// Injected with `go test -overlay`; never written into /repo.  Output: one line `REPLAY-RESULT {json}`.

import (
	"bytes"
	"encoding/base64"
	"encoding/json"
	"errors"
	"fmt"
	"os"
	"regexp"
	"strings"
	"testing"
)

type vrErrReader struct{ data []byte }

func (r *vrErrReader) Read(p []byte) (int, error) {
	if len(r.data) == 0 {
		return 0, errors.New("replay: connection reset")
	}
	n := copy(p, r.data)
	r.data = r.data[n:]
	return n, nil
}

func TestVerifReplayParseBody(t *testing.T) {
	if os.Getenv("VERIF_REPLAY_MODEL") == "" {
		t.Skip("no model")
	}
	failed := map[string]string{}
	fail := func(tag, why string) {
		if _, dup := failed[tag]; !dup {
			failed[tag] = why
		}
	}
	wellFormed := regexp.MustCompile(`^old [0-9]+$`)
	cp := "example.com/log\n1\nAAAAAAAAAAAAAAAAAAAAAAAAAAAAAAAAAAAAAAAAAAA=\n"
	accepted := map[string]uint64{}
	for _, line := range []string{"old 5x", "old 5 6", "old 0x10", "old 1_0", "old  5", "old\t5", "old +5", "old -0", "Old 5", "old", "old 18446744073709551616"} {
		if wellFormed.MatchString(line) {
			continue
		}
		size, _, _, err := parseBody(bytes.NewBufferString(line + "\n\n" + cp))
		if err == nil {
			accepted[line] = size
		}
	}
	if len(accepted) > 0 {
		js, _ := json.Marshal(accepted)
		fail("C11.w", "malformed old-size lines accepted (line -> parsed size): "+string(js))
	}

	// round trip and refusals over a matrix of requests
	hashes := func(k int) [][]byte {
		var hs [][]byte
		for i := 0; i < k; i++ {
			h := bytes.Repeat([]byte{byte(0xf8 + i)}, 1+(i*7)%64) // bytes that need '+' and '/' in the standard alphabet
			hs = append(hs, h)
		}
		return hs
	}
	encode := func(n uint64, hs [][]byte) string {
		s := fmt.Sprintf("old %d\n", n)
		for _, h := range hs {
			s += base64.StdEncoding.EncodeToString(h) + "\n"
		}
		return s
	}
	cps := []string{cp, "", "\n\nblank lines\n\n", string([]byte{0xff, 0xfe, '\n', 0x80})}
	for _, n := range []uint64{0, 1, 5, 1<<63 + 1, 1<<64 - 1} {
		for _, k := range []int{0, 1, 2, 7, 64} {
			hs := hashes(k)
			for _, c := range cps {
				body := encode(n, hs) + "\n" + c
				size, proof, got, err := parseBody(bytes.NewBufferString(body))
				ok := err == nil && size == n && len(proof) == k && bytes.Equal(got, []byte(c))
				for i := 0; ok && i < k; i++ {
					ok = bytes.Equal(proof[i], hs[i])
				}
				if !ok {
					fail("C11.rt", fmt.Sprintf("old %d, %d hashes, checkpoint %q: parsed (%d, %d hashes, %q, %v)", n, k, c, size, len(proof), got, err))
				}
				if err == nil && got == nil {
					fail("C11.z", "accepted with a nil checkpoint")
				}
			}
			refused := func(tag, what, body string) {
				size, proof, got, err := parseBody(bytes.NewBufferString(body))
				if err == nil {
					fail(tag, fmt.Sprintf("%s accepted: old %d with %d hashes -> (%d, %d hashes, %q)", what, n, k, size, len(proof), got))
				} else if size != 0 || proof != nil || got != nil {
					fail("C11.z", fmt.Sprintf("%s refused but partly understood: (%d, %v, %q, %v)", what, size, proof, got, err))
				}
			}
			for _, bad := range []string{"!!!!", "AAA", "AA=A", "YWJj ZA==", "_-_-"} {
				refused("C11.b", fmt.Sprintf("body with the non-base64 proof line %q after %d good lines", bad, k), encode(n, hs)+bad+"\n\n"+cp)
			}
			refused("C11.t", "body that ends after the proof lines (no blank separator)", encode(n, hs))
			refused("C11.t", "body that ends inside a proof line", encode(n, hs)+"AAAA")
		}
	}
	// lines that do not fit bufio's 4096-byte line buffer come back from ReadLine in pieces: they must be refused, not read
	// as several lines (a 4096-byte line followed by the checkpoint has NO blank separator; a long non-base64 line is not
	// two hashes; a 4096-character old-size line is not "old 1" plus a hash)
	for name, body := range map[string]string{
		"4096-byte proof line and no blank separator":      "old 7\n" + strings.Repeat("A", 4096) + "\n" + cp,
		"long proof line that is not base64 as a whole":    "old 7\n" + strings.Repeat("A", 4092) + "QQ==QQ==" + "\n\n" + cp,
		"old-size line of 4100 characters":                 "old " + strings.Repeat("0", 4091) + "12345\n\n" + cp,
		"8000-byte proof line":                             "old 7\n" + strings.Repeat("A", 8000) + "\n\n" + cp,
	} {
		size, proof, got, err := parseBody(bytes.NewBufferString(body))
		if err == nil {
			why := fmt.Sprintf("%s: accepted as (old %d, %d hashes, checkpoint of %d bytes)", name, size, len(proof), len(got))
			fail("C11.long", why)
			fail("C11.t", why)
			fail("C11.b", why)
			fail("C11.w", why)
		}
	}
	// the lines of the format end in "\n" alone: a "\r" belongs to the line, so "old 5\r" is no old-size line, "QUJD\r" no
	// base64 and "\r" not the blank separator (bufio's ReadLine silently drops a "\r" before the "\n")
	for name, body := range map[string]string{
		"CR LF after the old-size line":  "old 0\r\n\n" + cp,
		"CR LF after a proof line":       "old 1\nQUJD\r\n\n" + cp,
		"CR LF as the blank separator":   "old 1\nQUJD\n\r\n" + cp,
		"CR LF line endings throughout":  "old 1\r\nQUJD\r\n\r\n" + cp,
		"unterminated old-size line":     "old 1",
	} {
		size, proof, got, err := parseBody(bytes.NewBufferString(body))
		if err == nil {
			why := fmt.Sprintf("%s: accepted as (old %d, %d hashes, checkpoint of %d bytes)", name, size, len(proof), len(got))
			fail("C11.rl", why)
			fail("C11.w", why)
			fail("C11.b", why)
			fail("C11.t", why)
			fail("C10.rl", why)
		}
	}
	// a reader that fails with an I/O error after i bytes: whatever is returned with an error must be the zero values
	full := encode(7, hashes(3)) + "\n" + cp
	for i := 0; i <= len(full); i++ {
		size, proof, got, err := parseBody(&vrErrReader{data: []byte(full[:i])})
		if err != nil && (size != 0 || proof != nil || got != nil) {
			fail("C11.z", fmt.Sprintf("I/O error after %d of %d bytes: refused but partly understood: (%d, %d hashes, %q, %v)", i, len(full), size, len(proof), got, err))
		}
		if err == nil && i < len(full) {
			fail("C11.z", fmt.Sprintf("I/O error after %d of %d bytes swallowed: accepted (%d, %d hashes, %q)", i, len(full), size, len(proof), got))
		}
	}
	for _, e := range []string{""} {
		if _, _, _, err := parseBody(bytes.NewBufferString(e)); err == nil {
			fail("C11.e", "empty input accepted")
		}
	}
	out, _ := json.Marshal(map[string]interface{}{"realisable": true, "accepted_malformed": accepted, "failed_clauses": failed})
	t.Logf("REPLAY-RESULT %s", out)
}
