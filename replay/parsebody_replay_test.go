package bastion

// Replay for parseBody's obligation "an accepted body has a well-formed old-size line" (C11.w) on the REAL code.
// The solver's countermodel only says that fmt.Sscanf(line, "old %d") may succeed on a line that is not
// "old <decimal uint64>" (its contract promises nothing else); this test looks for such lines concretely.
// Injected with `go test -overlay`; never written into /repo.  Output: one line `REPLAY-RESULT {json}`.

import (
	"bytes"
	"encoding/json"
	"os"
	"regexp"
	"testing"
)

func TestVerifReplayParseBody(t *testing.T) {
	if os.Getenv("VERIF_REPLAY_MODEL") == "" {
		t.Skip("no model")
	}
	wellFormed := regexp.MustCompile(`^old [0-9]+$`)
	cp := "example.com/log\n1\nAAAAAAAAAAAAAAAAAAAAAAAAAAAAAAAAAAAAAAAAAAA=\n"
	accepted := map[string]uint64{}
	for _, line := range []string{"old 5x", "old 5 6", "old 0x10", "old 1_0", "old  5", "old\t5", "old +5", "old -0", "Old 5", "old", "old 18446744073709551616"} {
		if wellFormed.MatchString(line) {
			continue
		}
		size, _, _, err := parseBody(bytes.NewBufferString(line + "\n\n" + cp))
		if err == nil {
			accepted[line] = size
		}
	}
	failed := map[string]string{}
	if len(accepted) > 0 {
		js, _ := json.Marshal(accepted)
		failed["C11.w"] = "malformed old-size lines accepted (line -> parsed size): " + string(js)
	}
	out, _ := json.Marshal(map[string]interface{}{"realisable": true, "accepted_malformed": accepted, "failed_clauses": failed})
	t.Logf("REPLAY-RESULT %s", out)
}
