package main

// SMT sorts, type mapping and term helpers.

import (
	"crypto/sha1"
	"encoding/hex"
	"fmt"
	"go/types"
	"sort"
	"strings"
)

const (
	sBool  = "Bool"
	sInt   = "Int" // references and ghost integers
	sStr   = "Str"
	sBytes = "Bytes"
	sErr   = "Err"
	sIface = "Iface"
	sSlice = "Slice"
	sFunc  = "Func"
	sFloat = "Float"
	sBV64  = "(_ BitVec 64)"
	sBV32  = "(_ BitVec 32)"
	sBV16  = "(_ BitVec 16)"
	sBV8   = "(_ BitVec 8)"
)

const preamble = `(declare-sort Str 0)
(declare-sort Err 0)
(declare-sort Func 0)
(declare-sort Float 0)
(declare-datatypes ((Bytes 0)) (((mkBytes (b_nil Bool) (b_str Str)))))
(declare-datatypes ((Iface 0)) (((mkIface (i_typ Int) (i_ref Int)))))
(declare-datatypes ((Slice 0)) (((mkSlice (s_ref Int) (s_off (_ BitVec 64)) (s_len (_ BitVec 64)) (s_cap (_ BitVec 64))))))
(declare-const nil_err Err)
(declare-const nil_func Func)
(declare-const zero_float Float)
(declare-const empty_str Str)
(declare-fun slen (Str) (_ BitVec 64))
(declare-fun sat (Str (_ BitVec 64)) (_ BitVec 8))
(declare-fun scat (Str Str) Str)
(declare-fun ssub (Str (_ BitVec 64) (_ BitVec 64)) Str)
(declare-fun fieldref (Int Int) Int)
(declare-fun boxref (Int) Int)
(declare-fun fmt_d ((_ BitVec 64)) Str)
(declare-fun fmt_du ((_ BitVec 64)) Str)
(declare-fun fmt_03d ((_ BitVec 64)) Str)
(declare-fun boxval_Str (Int) Str)
(declare-fun boxval_Bytes (Int) Bytes)
(declare-fun boxval_Slice (Int) Slice)
(assert (= (slen empty_str) #x0000000000000000))
`

// SortReg registers struct datatypes and array sorts (ordered declarations).
type SortReg struct {
	decls     []string
	structs   map[string]*StructInfo // sort name -> info
	byType    map[string]string      // types.TypeString(struct) -> sort name
	typeIDs   map[string]int
	strLits   map[string]string // literal -> const name
	litOrder  []string
	declNames []string               // sort name of decls[i]
	resolve   func(name string) bool // registers the struct datatype called name, if a program type matches
}

type StructInfo struct {
	Sort   string
	Fields []string // field names
	FSorts []string
	FTypes []types.Type
}

func newSortReg() *SortReg {
	return &SortReg{structs: map[string]*StructInfo{}, byType: map[string]string{}, typeIDs: map[string]int{}, strLits: map[string]string{}}
}

func mangle(s string) string {
	var b strings.Builder
	for _, r := range s {
		switch {
		case r >= 'a' && r <= 'z', r >= 'A' && r <= 'Z', r >= '0' && r <= '9', r == '_':
			b.WriteRune(r)
		default:
			b.WriteByte('_')
		}
	}
	return b.String()
}

func bvSort(n int) string { return fmt.Sprintf("(_ BitVec %d)", n) }

func bvWidth(s string) int {
	var n int
	if _, err := fmt.Sscanf(s, "(_ BitVec %d)", &n); err == nil {
		return n
	}
	return 0
}

func isByteSlice(t types.Type) bool {
	if sl, ok := t.Underlying().(*types.Slice); ok {
		if b, ok := sl.Elem().Underlying().(*types.Basic); ok && b.Kind() == types.Uint8 {
			return true
		}
	}
	return false
}

func isErrorType(t types.Type) bool {
	return types.Identical(t, types.Universe.Lookup("error").Type())
}

// sortOf maps a Go type to its SMT sort.
func (r *SortReg) sortOf(t types.Type) string {
	switch u := t.Underlying().(type) {
	case *types.Basic:
		switch {
		case u.Info()&types.IsBoolean != 0:
			return sBool
		case u.Info()&types.IsString != 0:
			return sStr
		case u.Info()&types.IsInteger != 0:
			switch u.Kind() {
			case types.Int8, types.Uint8:
				return sBV8
			case types.Int16, types.Uint16:
				return sBV16
			case types.Int32, types.Uint32:
				return sBV32
			default:
				return sBV64
			}
		case u.Info()&types.IsFloat != 0, u.Info()&types.IsComplex != 0:
			return sFloat
		case u.Kind() == types.UnsafePointer:
			return sInt
		case u.Kind() == types.UntypedNil:
			return sInt
		}
	case *types.Pointer, *types.Map, *types.Chan:
		return sInt
	case *types.Slice:
		if isByteSlice(t) {
			return sBytes
		}
		return sSlice
	case *types.Interface:
		if isErrorType(t) {
			return sErr
		}
		return sIface
	case *types.Signature:
		return sFunc
	case *types.Array:
		return "(Array (_ BitVec 64) " + r.sortOf(u.Elem()) + ")"
	case *types.Struct:
		return r.structSort(t)
	case *types.Tuple:
		return "TUPLE"
	}
	return "UNSUPPORTED<" + t.String() + ">"
}

func (r *SortReg) structSort(t types.Type) string {
	key := types.TypeString(t, nil)
	if s, ok := r.byType[key]; ok {
		return s
	}
	st := t.Underlying().(*types.Struct)
	name := ""
	if n, ok := t.(*types.Named); ok {
		name = "S_" + mangle(n.Obj().Pkg().Name()+"_"+n.Obj().Name())
		if n.TypeArgs() != nil && n.TypeArgs().Len() > 0 {
			name += fmt.Sprintf("_g%d", len(r.byType))
		}
	} else {
		name = fmt.Sprintf("S_anon%d", len(r.byType))
	}
	for {
		if _, clash := r.structs[name]; !clash {
			break
		}
		name += "_"
	}
	r.byType[key] = name
	info := &StructInfo{Sort: name}
	r.structs[name] = info
	var fl []string
	for i := 0; i < st.NumFields(); i++ {
		f := st.Field(i)
		fs := r.sortOf(f.Type())
		info.Fields = append(info.Fields, f.Name())
		info.FSorts = append(info.FSorts, fs)
		info.FTypes = append(info.FTypes, f.Type())
		fl = append(fl, fmt.Sprintf("(%s_f%d %s)", name, i, fs))
	}
	if len(fl) == 0 {
		fl = append(fl, fmt.Sprintf("(%s_unit Bool)", name))
		info.FSorts = nil
	}
	r.declNames = append(r.declNames, name)
	r.decls = append(r.decls, fmt.Sprintf("(declare-datatypes ((%s 0)) (((mk_%s %s))))", name, name, strings.Join(fl, " ")))
	return name
}

func (r *SortReg) typeID(t types.Type) int {
	k := types.TypeString(t, nil)
	if id, ok := r.typeIDs[k]; ok {
		return id
	}
	// a number that depends on the type's name only (see strLit)
	h := sha1.Sum([]byte(k))
	id := int(uint32(h[0])<<16|uint32(h[1])<<8|uint32(h[2])) + 1
	for clash := true; clash; {
		clash = false
		for _, v := range r.typeIDs {
			if v == id {
				clash = true
				id++
			}
		}
	}
	r.typeIDs[k] = id
	return id
}

// strLit returns the constant naming a string literal.
func (r *SortReg) strLit(s string) string {
	if s == "" {
		return "empty_str"
	}
	if c, ok := r.strLits[s]; ok {
		return c
	}
	// the name depends on the text only (not on how many literals the run has seen before): the query generated
	// for one function must not change when unrelated code elsewhere in the repository gains or loses a literal
	h := sha1.Sum([]byte(s))
	c := "lit_" + hex.EncodeToString(h[:6])
	for {
		clash := false
		for t, n := range r.strLits {
			if n == c && t != s {
				clash = true
			}
		}
		if !clash {
			break
		}
		c += "x"
	}
	r.strLits[s] = c
	r.litOrder = append(r.litOrder, s)
	return c
}

// litDecls declares the string literal constants that occur in the query text `used` (all of them if used == ""):
// pairwise distinct, with known length and bytes (for short ones), in an order that depends on the names only.
func (r *SortReg) litDecls(used string) string {
	var b strings.Builder
	var names []string
	order := append([]string(nil), r.litOrder...)
	sort.Slice(order, func(i, j int) bool { return r.strLits[order[i]] < r.strLits[order[j]] })
	for _, s := range order {
		c := r.strLits[s]
		if used != "" && !strings.Contains(used, c) {
			continue
		}
		names = append(names, c)
		fmt.Fprintf(&b, "(declare-const %s Str) ; %q\n", c, s)
		fmt.Fprintf(&b, "(assert (= (slen %s) %s))\n", c, bvLit(uint64(len(s)), 64))
		if len(s) <= 8 {
			for i := 0; i < len(s); i++ {
				fmt.Fprintf(&b, "(assert (= (sat %s %s) %s))\n", c, bvLit(uint64(i), 64), bvLit(uint64(s[i]), 8))
			}
		}
	}
	names = append(names, "empty_str")
	if len(names) > 1 {
		sort.Strings(names)
		fmt.Fprintf(&b, "(assert (distinct %s))\n", strings.Join(names, " "))
	}
	return b.String()
}

func bvLit(v uint64, w int) string {
	if w%4 == 0 {
		return fmt.Sprintf("#x%0*x", w/4, v&mask(w))
	}
	return fmt.Sprintf("(_ bv%d %d)", v&mask(w), w)
}

func mask(w int) uint64 {
	if w >= 64 {
		return ^uint64(0)
	}
	return (uint64(1) << uint(w)) - 1
}

// zero returns the zero value term for a sort.
func (r *SortReg) zero(s string) string {
	switch s {
	case sBool:
		return "false"
	case sInt:
		return "0"
	case sStr:
		return "empty_str"
	case sBytes:
		return "(mkBytes true empty_str)"
	case sErr:
		return "nil_err"
	case sIface:
		return "(mkIface 0 0)"
	case sSlice:
		return "(mkSlice 0 #x0000000000000000 #x0000000000000000 #x0000000000000000)"
	case sFunc:
		return "nil_func"
	case sFloat:
		return "zero_float"
	}
	if w := bvWidth(s); w > 0 {
		return bvLit(0, w)
	}
	if strings.HasPrefix(s, "(Array ") {
		_, v := arraySorts(s)
		return fmt.Sprintf("((as const %s) %s)", s, r.zero(v))
	}
	if info, ok := r.structs[s]; ok {
		if len(info.FSorts) == 0 {
			return fmt.Sprintf("(mk_%s false)", s)
		}
		var fs []string
		for _, f := range info.FSorts {
			fs = append(fs, r.zero(f))
		}
		return fmt.Sprintf("(mk_%s %s)", s, strings.Join(fs, " "))
	}
	return "ZERO<" + s + ">"
}

// arraySorts splits "(Array K V)".
func arraySorts(s string) (string, string) {
	in := strings.TrimSuffix(strings.TrimPrefix(s, "(Array "), ")")
	// K is either an atom or a parenthesised sort
	if strings.HasPrefix(in, "(") {
		d := 0
		for i := 0; i < len(in); i++ {
			if in[i] == '(' {
				d++
			} else if in[i] == ')' {
				d--
				if d == 0 {
					return in[:i+1], strings.TrimSpace(in[i+1:])
				}
			}
		}
	}
	i := strings.Index(in, " ")
	return in[:i], strings.TrimSpace(in[i+1:])
}

func arr(k, v string) string { return "(Array " + k + " " + v + ")" }

// specSort resolves a sort name used in spec files.
func (r *SortReg) specSort(s string) (string, error) {
	switch s {
	case "Bool", "Int", "Str", "Bytes", "Err", "Iface", "Slice", "Func":
		return s, nil
	case "Ref":
		return sInt, nil
	case "bv64":
		return sBV64, nil
	case "bv32":
		return sBV32, nil
	case "bv16":
		return sBV16, nil
	case "bv8":
		return sBV8, nil
	}
	if strings.HasPrefix(s, "Map[") {
		d := 0
		for i := 3; i < len(s); i++ {
			if s[i] == '[' {
				d++
			} else if s[i] == ']' {
				d--
				if d == 0 {
					k, err := r.specSort(s[4:i])
					if err != nil {
						return "", err
					}
					v, err := r.specSort(s[i+1:])
					if err != nil {
						return "", err
					}
					return arr(k, v), nil
				}
			}
		}
	}
	if _, ok := r.structs[s]; ok {
		return s, nil
	}
	if r.resolve != nil && strings.HasPrefix(s, "S_") && r.resolve(s) {
		if _, ok := r.structs[s]; ok {
			return s, nil
		}
	}
	return "", fmt.Errorf("unknown sort %q", s)
}

func and(xs ...string) string {
	var ys []string
	for _, x := range xs {
		if x == "true" || x == "" {
			continue
		}
		ys = append(ys, x)
	}
	switch len(ys) {
	case 0:
		return "true"
	case 1:
		return ys[0]
	}
	return "(and " + strings.Join(ys, " ") + ")"
}

func or(xs ...string) string {
	var ys []string
	for _, x := range xs {
		if x == "false" || x == "" {
			continue
		}
		ys = append(ys, x)
	}
	switch len(ys) {
	case 0:
		return "false"
	case 1:
		return ys[0]
	}
	return "(or " + strings.Join(ys, " ") + ")"
}

func not(x string) string {
	if x == "true" {
		return "false"
	}
	if x == "false" {
		return "true"
	}
	return "(not " + x + ")"
}

func eq(a, b string) string     { return "(= " + a + " " + b + ")" }
func ite(c, a, b string) string { return "(ite " + c + " " + a + " " + b + ")" }
func sel(a, i string) string    { return "(select " + a + " " + i + ")" }
func sto(a, i, v string) string { return "(store " + a + " " + i + " " + v + ")" }

// litText: the text of a string-literal constant, if name is one.
func (r *SortReg) litText(name string) (string, bool) {
	if !strings.HasPrefix(name, "lit") {
		return "", false
	}
	for t, n := range r.strLits {
		if n == name {
			return t, true
		}
	}
	return "", false
}

// structDecls returns the datatype declarations of the struct sorts that the query text mentions (directly or through
// another needed declaration), in registration order: what one function's query looks like must not depend on which
// other types the run has met.
func (r *SortReg) structDecls(used string) string {
	need := make([]bool, len(r.decls))
	text := used
	for i := len(r.decls) - 1; i >= 0; i-- { // an outer struct is registered after the structs of its fields
		n := r.declNames[i]
		if strings.Contains(text, n+" ") || strings.Contains(text, n+")") {
			need[i] = true
			text += r.decls[i]
		}
	}
	// a second pass for references from earlier to later declarations (mutually nested registrations)
	for changed := true; changed; {
		changed = false
		for i := range r.decls {
			n := r.declNames[i]
			if !need[i] && (strings.Contains(text, n+" ") || strings.Contains(text, n+")")) {
				need[i] = true
				text += r.decls[i]
				changed = true
			}
		}
	}
	var b strings.Builder
	for i, d := range r.decls {
		if need[i] {
			b.WriteString(d)
			b.WriteByte('\n')
		}
	}
	return b.String()
}
