package main

// govc: verification-condition generator for Go (go/ssa) with Gobra-style contracts,
// discharging with z3 / cvc5.  See /verif/DESIGN.md.

import (
	"encoding/json"
	"flag"
	"fmt"
	"os"
	"path/filepath"
	"sort"
	"strings"
	"time"

	"go/types"

	"golang.org/x/tools/go/packages"
	"golang.org/x/tools/go/ssa"
	"golang.org/x/tools/go/ssa/ssautil"
)

type Report struct {
	Funcs        []string            `json:"functions_under_contract"`
	Obligations  []*Obligation       `json:"obligations"`
	Errors       []string            `json:"errors"`
	Warnings     []string            `json:"warnings"`
	Degraded     []string            `json:"degraded"`
	Assumed      []string            `json:"assumed_contracts_used"`
	Uncontracted map[string]int      `json:"uncontracted_calls_havocked"`
	Inlined      []string            `json:"inlined_helpers"`
	Paths        map[string]int      `json:"paths"`
	SolverSecs   float64             `json:"solver_secs"`
	LoadSecs     float64             `json:"load_secs"`
	GenSecs      float64             `json:"gen_secs"`
	Counts       map[string]int      `json:"counts"`
	BySolver     map[string]int      `json:"by_solver"`
	FuncStats    map[string]FuncStat `json:"func_stats"`
}

type FuncStat struct {
	Paths       int `json:"paths"`
	Obligations int `json:"obligations"`
	Blocks      int `json:"blocks"`
}

func main() {
	repo := flag.String("repo", "/repo", "repository root")
	specDir := flag.String("specs", "/verif/contracts", "directory with *.spec files")
	funcs := flag.String("funcs", "", "comma-separated function keys (suffix match) to verify; empty = all with a non-assumed contract")
	tags := flag.String("tags", "", "comma-separated tag prefixes; only matching obligations are discharged (safety/vacuity/reach/pre always kept when -aux)")
	aux := flag.Bool("aux", true, "keep vacuity/reach obligations")
	out := flag.String("out", "", "write JSON report here")
	timeout := flag.Int("timeout", 10000, "per-solver timeout (ms)")
	jobs := flag.Int("jobs", 14, "parallel solver processes")
	thorough := flag.Bool("thorough", false, "run all three solvers on every obligation")
	safety := flag.Bool("safety", false, "generate panic-freedom obligations")
	tmp := flag.String("tmp", "/verif/out/tmp", "scratch directory for queries")
	keep := flag.String("keep", "", "directory where failing/unknown queries are kept")
	mode := flag.String("mode", "", "contract variant to use (contracts with `opt mode=<m>` override the default ones)")
	knownFile := flag.String("known", "", "JSON list of known findings (obligation tag + region) to carve out")
	noLemmas := flag.Bool("nolemmas", false, "skip pure lemmas and call-graph obligations (already covered by another run)")
	lemmasOnly := flag.Bool("lemmas-only", false, "only pure lemmas")
	listOnly := flag.Bool("list", false, "list functions with contracts and exit")
	dumpPaths := flag.Bool("v", false, "verbose")
	flag.Parse()

	t0 := time.Now()
	cfg := &packages.Config{Mode: packages.LoadAllSyntax, Dir: *repo, BuildFlags: []string{"-tags=verif"}, Env: append(os.Environ(), "GOFLAGS=-mod=mod", "GOPROXY=off", "GOSUMDB=off", "GOTOOLCHAIN=local")}
	pkgs, err := packages.Load(cfg, "./...")
	if err != nil {
		fmt.Fprintln(os.Stderr, "load:", err)
		os.Exit(2)
	}
	nerr := 0
	packages.Visit(pkgs, nil, func(p *packages.Package) {
		for _, e := range p.Errors {
			fmt.Fprintln(os.Stderr, "package error:", e)
			nerr++
		}
	})
	if nerr > 0 {
		os.Exit(2)
	}
	prog, _ := ssautil.AllPackages(pkgs, ssa.GlobalDebug|ssa.InstantiateGenerics)
	prog.Build()
	loadSecs := time.Since(t0).Seconds()

	eng := &Engine{
		prog: prog, pkgs: map[string]*ssa.Package{}, specs: newSpecs(), reg: newSortReg(),
		hsorts: map[string]string{}, gtypes: map[string]types.Type{}, sentinel: map[string]bool{},
		uncontracted: map[string]int{}, assumedUsed: map[string]bool{}, atCallSeen: map[*Clause]bool{}, inlinedUsed: map[string]bool{},
		cfg: Config{MaxPaths: 4096, MaxInline: 8, Safety: *safety, RepoPrefix: "github.com/transparency-dev/witness"},
	}
	for _, p := range prog.AllPackages() {
		eng.pkgs[p.Pkg.Path()] = p
	}
	eng.mode = *mode
	eng.reg.resolve = func(name string) bool {
		for _, p := range prog.AllPackages() {
			for mn, m := range p.Members {
				if t, ok := m.(*ssa.Type); ok && "S_"+mangle(p.Pkg.Name()+"_"+mn) == name {
					if _, isStruct := t.Type().Underlying().(*types.Struct); isStruct && strings.HasPrefix(p.Pkg.Path(), eng.cfg.RepoPrefix) {
						eng.reg.structSort(t.Type())
						return true
					}
				}
			}
		}
		return false
	}
	if err := eng.specs.loadSpecDir(*specDir); err != nil {
		fmt.Fprintln(os.Stderr, "spec:", err)
		os.Exit(2)
	}
	// contract files in the repo
	for _, p := range pkgs {
		for _, f := range p.GoFiles {
			if filepath.Base(f) == "zz_contracts_verif.go" {
				if err := eng.specs.loadContractGoFile(f, p.PkgPath); err != nil {
					fmt.Fprintln(os.Stderr, "contract:", err)
					os.Exit(2)
				}
			}
		}
	}
	eng.resolveSentinels()
	eng.expandMapDesignators()
	if *knownFile != "" {
		if data, err := os.ReadFile(*knownFile); err == nil {
			if err := json.Unmarshal(data, &eng.known); err != nil {
				fmt.Fprintln(os.Stderr, "known findings:", err)
				os.Exit(2)
			}
		}
	}

	// which functions
	var want []string
	for _, f := range strings.Split(*funcs, ",") {
		if f = strings.TrimSpace(f); f != "" {
			want = append(want, f)
		}
	}
	allFns := ssautil.AllFunctions(prog)
	byName := map[string]*ssa.Function{}
	for fn := range allFns {
		byName[fn.String()] = fn
	}
	var keys []string
	for k, c := range eng.specs.Contracts {
		if c.Assumed {
			continue
		}
		base := k
		if i := strings.Index(k, "@"); i >= 0 {
			if k[i+1:] != eng.mode {
				continue
			}
			base = k[:i]
		} else if eng.mode != "" {
			if _, has := eng.specs.Contracts[k+"@"+eng.mode]; has {
				continue
			}
		}
		if _, ok := byName[base]; !ok {
			continue
		}
		if c.Opts["inline"] != "" {
			continue // a directive ("always inline this helper"), not a contract to verify on its own
		}
		keys = append(keys, k)
	}
	sort.Strings(keys)
	if *listOnly {
		for _, k := range keys {
			fmt.Println(k)
		}
		return
	}
	rep := &Report{Uncontracted: map[string]int{}, Paths: map[string]int{}, Counts: map[string]int{}, BySolver: map[string]int{}, FuncStats: map[string]FuncStat{}}
	t1 := time.Now()
	// contracts naming functions that do not exist are an error (stale contract)
	for k, c := range eng.specs.Contracts {
		if i := strings.Index(k, "@"); i >= 0 {
			k = k[:i]
		}
		if c.Assumed || strings.HasPrefix(k, "(") && !strings.Contains(k, "*") && byName[k] == nil {
			continue
		}
		if _, ok := byName[k]; !ok && !c.Assumed && !strings.HasPrefix(k, "field:") && c.Opts["iface"] == "" {
			if strings.HasPrefix(c.File, *repo) {
				eng.errorf("contract for %s (%s:%d) names no function in the program", k, c.File, c.Line)
			}
		}
	}
	// a contract key whose package is not part of the program (typically an import alias that is not declared in
	// that spec file) would silently never be used
	loaded := map[string]bool{}
	for _, p := range prog.AllPackages() {
		loaded[p.Pkg.Path()] = true
	}
	for k, c := range eng.specs.Contracts {
		if pk := pkgOfKey(k); pk != "" && !loaded[pk] {
			eng.errorf("contract for %s (%s:%d): package %q is not part of the program (undeclared import alias?)", k, c.File, c.Line, pk)
		}
	}
	if !*lemmasOnly {
		// every requested function must be there and under contract: a check whose function or contract has
		// disappeared must not pass by proving nothing about it
		for _, w := range want {
			found := false
			for _, k := range keys {
				kb := k
				if i := strings.Index(k, "@"); i >= 0 {
					kb = k[:i]
				}
				if strings.HasSuffix(kb, w) || kb == w {
					found = true
				}
			}
			if !found {
				eng.errorf("no function under contract matches %q (function or contract removed?)", w)
			}
		}
		for _, k := range keys {
			if len(want) > 0 {
				ok := false
				for _, w := range want {
					kb := k
					if i := strings.Index(k, "@"); i >= 0 {
						kb = k[:i]
					}
					if strings.HasSuffix(kb, w) || kb == w {
						ok = true
					}
				}
				if !ok {
					continue
				}
			}
			base := k
			if i := strings.Index(k, "@"); i >= 0 {
				base = k[:i]
			}
			fn := byName[base]
			if fn.Blocks == nil {
				continue
			}
			before := len(eng.obls)
			eng.paths = 0
			eng.abort = false
			eng.verifyFunction(fn, eng.specs.Contracts[k])
			for _, cl := range eng.specs.Contracts[k].AtCalls {
				if !eng.atCallSeen[cl] {
					eng.errorf("%s: atcall %s (%s:%d): no call of that function on any path", fn, cl.Callee, cl.File, cl.Line)
				}
			}
			rep.Funcs = append(rep.Funcs, k)
			rep.FuncStats[k] = FuncStat{Paths: eng.paths, Obligations: len(eng.obls) - before, Blocks: len(fn.Blocks)}
			rep.Paths[k] = eng.paths
		}
	}
	if !*noLemmas {
		eng.lemmaObligations()
		eng.callersObligations()
	}
	rep.GenSecs = time.Since(t1).Seconds()

	// filter by tags
	var tagw []string
	for _, t := range strings.Split(*tags, ",") {
		if t = strings.TrimSpace(t); t != "" {
			tagw = append(tagw, t)
		}
	}
	match := func(t string) bool {
		for _, w := range tagw {
			if t == w || strings.HasPrefix(t, w+".") || strings.HasPrefix(t, w+"-") {
				return true
			}
		}
		return false
	}
	// functions with at least one ensures clause carrying a wanted tag: their supporting obligations
	// (loop invariants, variants, callee preconditions) belong to the property as well
	fnWanted := map[string]bool{}
	for _, o := range eng.obls {
		if o.Kind == "ensures" || o.Kind == "crash-invariant" || o.Kind == "atcall" {
			for _, t := range o.Tags {
				if match(t) {
					fnWanted[o.Func] = true
				}
			}
		}
	}
	var sel []*Obligation
	for _, o := range eng.obls {
		keepIt := len(tagw) == 0
		switch o.Kind {
		case "invariant-entry", "invariant-preserved", "decreases", "callee-precondition", "frame", "crash-invariant", "borrowed-slice", "aliased-write":
			if fnWanted[o.Func] {
				keepIt = true
			}
		}
		for _, t := range o.Tags {
			for _, w := range tagw {
				if t == w || strings.HasPrefix(t, w+".") || strings.HasPrefix(t, w+"-") {
					keepIt = true
				}
			}
			if *aux && (t == "vacuity" || t == "reach") {
				keepIt = true
			}
		}
		if keepIt {
			sel = append(sel, o)
		}
	}
	rep.SolverSecs = discharge(sel, *tmp, *jobs, *timeout, *thorough, *keep)
	rep.Obligations = sel
	rep.Errors = eng.errors
	rep.Warnings = eng.warnings
	rep.Degraded = eng.degraded
	for k := range eng.assumedUsed {
		rep.Assumed = append(rep.Assumed, k)
	}
	sort.Strings(rep.Assumed)
	for k := range eng.inlinedUsed {
		rep.Inlined = append(rep.Inlined, k)
	}
	sort.Strings(rep.Inlined)
	rep.Uncontracted = eng.uncontracted
	rep.LoadSecs = loadSecs
	for _, o := range sel {
		rep.Counts[o.Status]++
		if o.Status == "discharged" {
			rep.BySolver[o.Solver]++
		}
	}
	if *out != "" {
		data, _ := json.MarshalIndent(rep, "", " ")
		os.MkdirAll(filepath.Dir(*out), 0o755)
		os.WriteFile(*out, data, 0o644)
	}
	// console summary
	for _, er := range rep.Errors {
		fmt.Println("ERROR:", er)
	}
	if *dumpPaths {
		for _, w := range rep.Warnings {
			fmt.Println("warning:", w)
		}
	}
	for _, o := range sel {
		if o.Status == "failed" || o.Status == "unknown" || o.Status == "vacuous" {
			if o.Status == "vacuous" && o.Kind == "reach:path-reachable" && !*dumpPaths {
				continue
			}
			fmt.Printf("%s %s [%s] %s  (%s; path %d)\n", strings.ToUpper(o.Status), o.ID, strings.Join(o.Tags, ","), o.Clause, o.Solver, o.Path)
			if o.Model != "" && *dumpPaths {
				fmt.Println(indent(o.Model))
			}
		}
	}
	fmt.Printf("functions=%d obligations=%d %v solver=%.1fs load=%.1fs gen=%.1fs errors=%d\n", len(rep.Funcs), len(sel), rep.Counts, rep.SolverSecs, rep.LoadSecs, rep.GenSecs, len(rep.Errors))
	if len(rep.Errors) > 0 {
		os.Exit(3)
	}
	if rep.Counts["failed"]+rep.Counts["unknown"] > 0 {
		os.Exit(1)
	}
}

func indent(s string) string {
	return "    " + strings.ReplaceAll(strings.TrimSpace(s), "\n", "\n    ")
}

// pkgOfKey extracts the package path from a contract key such as "(*database/sql.DB).Begin@mode",
// "fmt.Errorf", "field:pkg.T.f" or "pkg.F$1".
func pkgOfKey(k string) string {
	if i := strings.Index(k, "@"); i >= 0 {
		k = k[:i]
	}
	k = strings.TrimPrefix(k, "field:")
	if strings.HasPrefix(k, "(") {
		j := strings.Index(k, ")")
		if j < 0 {
			return ""
		}
		k = strings.TrimPrefix(k[1:j], "*")
		if i := strings.LastIndex(k, "."); i >= 0 {
			return k[:i]
		}
		return ""
	}
	// pkg/path.Name[.field][$n]: the package path ends at the first '.' after the last '/'
	sl := strings.LastIndex(k, "/")
	if i := strings.Index(k[sl+1:], "."); i >= 0 {
		return k[:sl+1+i]
	}
	return ""
}

// expandMapDesignators rewrites the frame designator `maps[K]V` (K a named type written alias.Name, V one of []byte, string,
// bool, int, uint64 or a named type) -- "the contents of maps of this Go type" -- into the heap kinds of such maps.
func (e *Engine) expandMapDesignators() {
	typeOf := func(name string) types.Type {
		switch name {
		case "[]byte":
			return types.NewSlice(types.Typ[types.Byte])
		case "string":
			return types.Typ[types.String]
		case "bool":
			return types.Typ[types.Bool]
		case "int":
			return types.Typ[types.Int]
		case "uint64":
			return types.Typ[types.Uint64]
		}
		q := e.specs.qualifyPattern(name)
		i := strings.LastIndex(q, ".")
		if i < 0 {
			return nil
		}
		p := e.pkgs[q[:i]]
		if p == nil {
			return nil
		}
		if t, ok := p.Members[q[i+1:]].(*ssa.Type); ok {
			return t.Type()
		}
		return nil
	}
	for _, c := range e.specs.Contracts {
		for _, list := range []*[]string{&c.Modifies, &c.GhostMod} {
			var out []string
			for _, m := range *list {
				if !strings.HasPrefix(m, "maps[") {
					out = append(out, m)
					continue
				}
				j := strings.Index(m, "]")
				if j < 0 {
					e.errorf("%s: modifies %q: want maps[K]V", c.Key, m)
					continue
				}
				kt, vt := typeOf(strings.TrimSpace(m[5:j])), typeOf(strings.TrimSpace(m[j+1:]))
				if kt == nil || vt == nil {
					e.errorf("%s: modifies %q: unknown key or element type", c.Key, m)
					continue
				}
				ks, vs := e.reg.sortOf(kt), e.reg.sortOf(vt)
				out = append(out, "key:"+e.keyMapP(ks, vs), "key:"+e.keyMapV(ks, vs))
			}
			*list = out
		}
	}
}

// resolveSentinels maps sentinel names to global heap keys.
func (e *Engine) resolveSentinels() {
	for _, s := range e.specs.Sentinels {
		i := strings.LastIndex(s, ".")
		if i < 0 {
			e.errorf("bad sentinel %q", s)
			continue
		}
		p := e.pkgs[s[:i]]
		if p == nil {
			e.errorf("sentinel %q: unknown package", s)
			continue
		}
		g, ok := p.Members[s[i+1:]].(*ssa.Global)
		if !ok {
			e.errorf("sentinel %q: not a package-level variable", s)
			continue
		}
		e.sentinel[e.keyGlobal(g)] = true
		// a sentinel must never be reassigned outside its package initialiser
		for fn := range ssautil.AllFunctions(e.prog) {
			if fn.Name() == "init" || fn.Blocks == nil {
				continue
			}
			for _, b := range fn.Blocks {
				for _, in := range b.Instrs {
					if st, ok := in.(*ssa.Store); ok && st.Addr == ssa.Value(g) {
						e.errorf("sentinel %s is assigned in %s: constant-sentinel assumption violated", s, fn)
					}
				}
			}
		}
	}
}

// lemmaObligations turns pure lemmas into obligations.
func (e *Engine) lemmaObligations() {
	for _, l := range e.specs.Lemmas {
		st := newState()
		ctx := &EvalCtx{e: e, st: st, vars: map[string]*Val{}}
		v, err := ctx.evalAs(l.E, sBool)
		if err != nil {
			e.errorf("lemma %s: %v", l.Name, err)
			continue
		}
		o := &Obligation{Func: "lemma " + l.Name, Kind: "lemma", Tags: l.Tags, Clause: l.Src, Where: fmt.Sprintf("%s:%d", l.File, l.Line), Expect: "unsat"}
		e.curC = nil
		e.noAxioms = hasTag(l.Tags, "noaxioms")
		o.Query = e.finishQuery(e.queryPrefix(st)+"(assert (not "+v.T+"))\n", false)
		e.noAxioms = false
		o.ID = fmt.Sprintf("lemma/%s/%d", l.Name, len(e.obls)+1)
		e.obls = append(e.obls, o)
	}
}

// callersObligations: syntactic call-graph obligations ("only F may call G") over all non-test repo functions.
func (e *Engine) callersObligations() {
	// static callers of every function (to accept private helpers that are only reachable from an allowed function)
	callers := map[string]map[string]bool{}
	referenced := map[string]bool{} // functions used as values (could be called from anywhere)
	for fn := range ssautil.AllFunctions(e.prog) {
		for _, b := range fn.Blocks {
			for _, in := range b.Instrs {
				if ci, ok := in.(ssa.CallInstruction); ok {
					if sc := ci.Common().StaticCallee(); sc != nil {
						if callers[sc.String()] == nil {
							callers[sc.String()] = map[string]bool{}
						}
						callers[sc.String()][fn.String()] = true
					}
				}
				for _, op := range in.Operands(nil) {
					if f, ok := (*op).(*ssa.Function); ok {
						if ci, isCall := in.(ssa.CallInstruction); !isCall || ci.Common().Value != *op {
							referenced[f.String()] = true
						}
					}
				}
			}
		}
	}
	var allowedFn func(name string, allowed []string, seen map[string]bool) bool
	allowedFn = func(name string, allowed []string, seen map[string]bool) bool {
		for _, a := range allowed {
			if name == a {
				return true
			}
		}
		if seen[name] || referenced[name] || len(callers[name]) == 0 {
			return false
		}
		seen[name] = true
		for c := range callers[name] {
			if !allowedFn(c, allowed, seen) {
				return false
			}
		}
		return true
	}
	for _, r := range e.specs.Callers {
		var sites []string
		nsites := 0
		for fn := range ssautil.AllFunctions(e.prog) {
			if fn.Blocks == nil || !e.isRepoFunc(fn) {
				continue
			}
			pk := fn.Package()
			if pk == nil && fn.Parent() != nil {
				pk = fn.Parent().Package()
			}
			if pk != nil && (strings.HasSuffix(pk.Pkg.Path(), "/testonly") || strings.Contains(pk.Pkg.Path(), "/cmd/loadtest")) {
				continue
			}
			if strings.HasSuffix(e.prog.Fset.Position(fn.Pos()).Filename, "_verif.go") {
				continue // verification harness (build tag verif), not part of the shipped program
			}
			for _, b := range fn.Blocks {
				for _, in := range b.Instrs {
					ci, ok := in.(ssa.CallInstruction)
					if !ok {
						continue
					}
					cc := ci.Common()
					hit := false
					if cc.IsInvoke() {
						for _, k := range e.ifaceKeys(cc) {
							if k == r.Callee {
								hit = true
							}
						}
					} else if sc := cc.StaticCallee(); sc != nil && sc.String() == r.Callee {
						hit = true
					}
					if !hit {
						continue
					}
					nsites++
					if !allowedFn(fn.String(), r.Allowed, map[string]bool{}) {
						sites = append(sites, fn.String()+" at "+e.posStr(in.Pos()))
					}
				}
			}
		}
		sort.Strings(sites)
		o := &Obligation{Func: "callgraph", Kind: "callers-only", Tags: r.Tags, Clause: fmt.Sprintf("only %v may call %s (%d call sites found)", r.Allowed, r.Callee, nsites), Where: r.Where, Expect: "unsat"}
		if len(sites) == 0 {
			o.Query = preamble + "(assert false)\n"
		} else {
			o.Query = preamble + "(assert true)\n"
			o.Clause += "; offending: " + strings.Join(sites, "; ")
		}
		o.ID = fmt.Sprintf("callgraph/%s/%d", shortName(r.Callee), len(e.obls)+1)
		e.obls = append(e.obls, o)
	}
}
