package main

// Evaluation of contract expressions over symbolic states.

import (
	"fmt"
	"go/constant"
	"go/types"
	"strconv"
	"strings"

	"golang.org/x/tools/go/ssa"
)

type EvalCtx struct {
	e           *Engine
	st          *State
	old         *Snapshot
	inOld       bool
	vars        map[string]*Val
	c           *Contract
	pkg         *ssa.Package
	assume      bool
	fr          *Frame
	hdr         *ssa.BasicBlock
	bound       map[string]*Val
	depth       int
	entryAllocs int
}

func (c *EvalCtx) heap() map[string]string {
	if c.inOld && c.old != nil {
		return c.old.heap
	}
	return c.st.heap
}

func (c *EvalCtx) ghost() map[string]string {
	if c.inOld && c.old != nil {
		return c.old.ghost
	}
	return c.st.ghost
}

func (c *EvalCtx) coerce(v *Val, sort string) (*Val, error) {
	if v.S == sort {
		return v, nil
	}
	switch v.S {
	case "NUM":
		n, err := strconv.ParseUint(v.T, 0, 64)
		if err != nil {
			return nil, fmt.Errorf("bad number %q", v.T)
		}
		if w := bvWidth(sort); w > 0 {
			return &Val{T: bvLit(n, w), S: sort}, nil
		}
		if sort == sInt {
			return &Val{T: strconv.FormatUint(n, 10), S: sInt}, nil
		}
	case "NEGNUM":
		n, _ := strconv.ParseUint(v.T, 0, 64)
		if w := bvWidth(sort); w > 0 {
			return &Val{T: bvLit(uint64(-int64(n)), w), S: sort}, nil
		}
		if sort == sInt {
			return &Val{T: fmt.Sprintf("(- %d)", n), S: sInt}, nil
		}
	case "NIL":
		return &Val{T: c.e.reg.zero(sort), S: sort}, nil
	case "NUMITE":
		a, err := c.coerce(v.Tup[0], sort)
		if err != nil {
			return nil, err
		}
		b, err := c.coerce(v.Tup[1], sort)
		if err != nil {
			return nil, err
		}
		return &Val{T: ite(v.T, a.T, b.T), S: sort}, nil
	}
	return nil, fmt.Errorf("sort mismatch: have %s (%s), want %s", v.S, v.T, sort)
}

func isLit(v *Val) bool { return v.S == "NUM" || v.S == "NIL" || v.S == "NEGNUM" || v.S == "NUMITE" }

// unify coerces literal operands to the other side's sort.
func (c *EvalCtx) unify(a, b *Val) (*Val, *Val, error) {
	var err error
	switch {
	case isLit(a) && isLit(b):
		if a.S == "NIL" || b.S == "NIL" {
			return nil, nil, fmt.Errorf("cannot type nil against literal")
		}
		a, err = c.coerce(a, sInt)
		if err != nil {
			return nil, nil, err
		}
		b, err = c.coerce(b, sInt)
	case isLit(a):
		a, err = c.coerce(a, b.S)
	case isLit(b):
		b, err = c.coerce(b, a.S)
	}
	if err != nil {
		return nil, nil, err
	}
	if a.S != b.S {
		return nil, nil, fmt.Errorf("operands have different sorts: %s vs %s (%s , %s)", a.S, b.S, a.T, b.T)
	}
	return a, b, nil
}

func (c *EvalCtx) equal(a, b *Val) (string, error) {
	if a.S == "NIL" && b.S == "NIL" {
		return "true", nil
	}
	if b.S == "NIL" {
		a, b = b, a
	}
	if a.S == "NIL" {
		switch b.S {
		case sBytes:
			return "(b_nil " + b.T + ")", nil
		case sSlice:
			return eq("(s_ref "+b.T+")", "0"), nil
		}
	}
	a, b, err := c.unify(a, b)
	if err != nil {
		return "", err
	}
	return eq(a.T, b.T), nil
}

func (c *EvalCtx) sortFromName(n string) (string, types.Type, error) {
	switch n {
	case "int":
		return sBV64, types.Typ[types.Int], nil
	case "int64":
		return sBV64, types.Typ[types.Int64], nil
	case "uint64":
		return sBV64, types.Typ[types.Uint64], nil
	case "uint8", "byte":
		return sBV8, types.Typ[types.Uint8], nil
	case "string":
		return sStr, types.Typ[types.String], nil
	case "bool":
		return sBool, types.Typ[types.Bool], nil
	}
	s, err := c.e.reg.specSort(n)
	return s, nil, err
}

func (c *EvalCtx) eval(x *Expr) (*Val, error) {
	c.depth++
	defer func() { c.depth-- }()
	if c.depth > 200 {
		return nil, fmt.Errorf("expression nesting too deep (recursive let?)")
	}
	switch x.Op {
	case "num":
		return &Val{T: x.S, S: "NUM"}, nil
	case "str":
		return &Val{T: c.e.reg.strLit(x.S), S: sStr, Typ: types.Typ[types.String]}, nil
	case "ident":
		return c.ident(x.S)
	case "old":
		if c.inOld {
			return c.eval(x.Args[0])
		}
		c.inOld = true
		v, err := c.eval(x.Args[0])
		c.inOld = false
		return v, err
	case "field":
		return c.field(x)
	case "index":
		return c.index(x)
	case "update":
		a, err := c.eval(x.Args[0])
		if err != nil {
			return nil, err
		}
		if !strings.HasPrefix(a.S, "(Array ") {
			return nil, fmt.Errorf("update of non-array sort %s", a.S)
		}
		ks, vs := arraySorts(a.S)
		k, err := c.evalAs(x.Args[1], ks)
		if err != nil {
			return nil, err
		}
		v, err := c.evalAs(x.Args[2], vs)
		if err != nil {
			return nil, err
		}
		return &Val{T: sto(a.T, k.T, v.T), S: a.S}, nil
	case "call":
		return c.call(x)
	case "ite":
		cd, err := c.evalAs(x.Args[0], sBool)
		if err != nil {
			return nil, err
		}
		a, err := c.eval(x.Args[1])
		if err != nil {
			return nil, err
		}
		b, err := c.eval(x.Args[2])
		if err != nil {
			return nil, err
		}
		if (a.S == "NUM" || a.S == "NEGNUM") && (b.S == "NUM" || b.S == "NEGNUM") {
			// a choice between two numerals takes the sort of its context
			return &Val{T: cd.T, S: "NUMITE", Tup: []*Val{a, b}}, nil
		}
		a, b, err = c.unify(a, b)
		if err != nil {
			return nil, err
		}
		return &Val{T: ite(cd.T, a.T, b.T), S: a.S, Typ: a.Typ}, nil
	case "forall", "exists":
		saved := c.bound
		nb := map[string]*Val{}
		for k, v := range saved {
			nb[k] = v
		}
		var binders []string
		for i, n := range x.BNames {
			so, ty, err := c.sortFromName(x.BSorts[i])
			if err != nil {
				return nil, err
			}
			bn := freshName("q_" + n)
			nb[n] = &Val{T: bn, S: so, Typ: ty}
			binders = append(binders, "("+bn+" "+so+")")
		}
		c.bound = nb
		body, err := c.evalAs(x.Args[0], sBool)
		c.bound = saved
		if err != nil {
			return nil, err
		}
		return &Val{T: "(" + x.Op + " (" + strings.Join(binders, " ") + ") " + body.T + ")", S: sBool}, nil
	case "!":
		a, err := c.evalAs(x.Args[0], sBool)
		if err != nil {
			return nil, err
		}
		return &Val{T: not(a.T), S: sBool}, nil
	case "neg":
		a, err := c.eval(x.Args[0])
		if err != nil {
			return nil, err
		}
		if a.S == "NUM" {
			return &Val{T: a.T, S: "NEGNUM"}, nil
		}
		if bvWidth(a.S) > 0 {
			return &Val{T: "(bvneg " + a.T + ")", S: a.S, Typ: a.Typ}, nil
		}
		return &Val{T: "(- " + a.T + ")", S: sInt}, nil
	case "&&", "||", "==>", "<==>":
		a, err := c.evalAs(x.Args[0], sBool)
		if err != nil {
			return nil, err
		}
		b, err := c.evalAs(x.Args[1], sBool)
		if err != nil {
			return nil, err
		}
		switch x.Op {
		case "&&":
			return &Val{T: and(a.T, b.T), S: sBool}, nil
		case "||":
			return &Val{T: or(a.T, b.T), S: sBool}, nil
		case "==>":
			return &Val{T: "(=> " + a.T + " " + b.T + ")", S: sBool}, nil
		default:
			return &Val{T: eq(a.T, b.T), S: sBool}, nil
		}
	case "==", "!=":
		a, err := c.eval(x.Args[0])
		if err != nil {
			return nil, err
		}
		b, err := c.eval(x.Args[1])
		if err != nil {
			return nil, err
		}
		t, err := c.equal(a, b)
		if err != nil {
			return nil, fmt.Errorf("%v in %s", err, x)
		}
		if x.Op == "!=" {
			t = not(t)
		}
		return &Val{T: t, S: sBool}, nil
	case "in":
		k, err := c.eval(x.Args[0])
		if err != nil {
			return nil, err
		}
		m, err := c.eval(x.Args[1])
		if err != nil {
			return nil, err
		}
		if strings.HasPrefix(m.S, "(Array ") {
			ks, vs := arraySorts(m.S)
			if vs != sBool {
				return nil, fmt.Errorf("`in` needs a Bool-valued map, have %s", m.S)
			}
			k, err = c.coerce(k, ks)
			if err != nil {
				return nil, err
			}
			return &Val{T: sel(m.T, k.T), S: sBool}, nil
		}
		if m.Typ != nil {
			if mt, ok := m.Typ.Underlying().(*types.Map); ok {
				ks, vs := c.e.reg.sortOf(mt.Key()), c.e.reg.sortOf(mt.Elem())
				k, err = c.coerce(k, ks)
				if err != nil {
					return nil, err
				}
				p := sel(sel(c.e.heapGet(c.st, c.heap(), c.e.keyMapP(ks, vs)), m.T), k.T)
				return &Val{T: and(not(eq(m.T, "0")), p), S: sBool}, nil
			}
		}
		return nil, fmt.Errorf("`in` on non-map %s", m)
	case "<", "<=", ">", ">=", "+", "-", "*", "/", "%", "&", "|", "^", "<<", ">>":
		a, err := c.eval(x.Args[0])
		if err != nil {
			return nil, err
		}
		b, err := c.eval(x.Args[1])
		if err != nil {
			return nil, err
		}
		a, b, err = c.unify(a, b)
		if err != nil {
			return nil, fmt.Errorf("%v in %s", err, x)
		}
		return c.arith(x.Op, a, b)
	case "++":
		a, err := c.eval(x.Args[0])
		if err != nil {
			return nil, err
		}
		b, err := c.eval(x.Args[1])
		if err != nil {
			return nil, err
		}
		as, bs := a.T, b.T
		if a.S == sBytes {
			as = "(b_str " + a.T + ")"
		}
		if b.S == sBytes {
			bs = "(b_str " + b.T + ")"
		}
		return &Val{T: c.catDistribute(as, bs), S: sStr, Typ: types.Typ[types.String]}, nil
	}
	return nil, fmt.Errorf("cannot evaluate %s", x)
}

func (c *EvalCtx) evalAs(x *Expr, sort string) (*Val, error) {
	v, err := c.eval(x)
	if err != nil {
		return nil, err
	}
	v, err = c.coerce(v, sort)
	if err != nil {
		return nil, fmt.Errorf("%v in %s", err, x)
	}
	return v, nil
}

func (c *EvalCtx) arith(op string, a, b *Val) (*Val, error) {
	w := bvWidth(a.S)
	signed := false
	if a.Typ != nil {
		signed = isSigned(a.Typ)
	} else if b.Typ != nil {
		signed = isSigned(b.Typ)
	}
	ty := a.Typ
	if ty == nil {
		ty = b.Typ
	}
	bin := func(o string) string { return "(" + o + " " + a.T + " " + b.T + ")" }
	if w > 0 {
		var t string
		rs := a.S
		switch op {
		case "+":
			t = bin("bvadd")
		case "-":
			t = bin("bvsub")
		case "*":
			t = bin("bvmul")
		case "/":
			if signed {
				t = bin("bvsdiv")
			} else {
				t = bin("bvudiv")
			}
		case "%":
			if signed {
				t = bin("bvsrem")
			} else {
				t = bin("bvurem")
			}
		case "&":
			t = bin("bvand")
		case "|":
			t = bin("bvor")
		case "^":
			t = bin("bvxor")
		case "<<":
			t = bin("bvshl")
		case ">>":
			if signed {
				t = bin("bvashr")
			} else {
				t = bin("bvlshr")
			}
		case "<", "<=", ">", ">=":
			m := map[string][2]string{"<": {"bvult", "bvslt"}, "<=": {"bvule", "bvsle"}, ">": {"bvugt", "bvsgt"}, ">=": {"bvuge", "bvsge"}}
			o := m[op][0]
			if signed {
				o = m[op][1]
			}
			return &Val{T: bin(o), S: sBool}, nil
		}
		return &Val{T: t, S: rs, Typ: ty}, nil
	}
	if a.S == sInt {
		switch op {
		case "+", "-", "*":
			return &Val{T: bin(op), S: sInt}, nil
		case "/":
			return &Val{T: bin("div"), S: sInt}, nil
		case "%":
			return &Val{T: bin("mod"), S: sInt}, nil
		case "<", "<=", ">", ">=":
			return &Val{T: bin(op), S: sBool}, nil
		}
	}
	return nil, fmt.Errorf("operator %s not defined on sort %s", op, a.S)
}

func (c *EvalCtx) ident(name string) (*Val, error) {
	if v, ok := c.bound[name]; ok {
		return v, nil
	}
	if c.hdr != nil && c.fr != nil && !c.inOld {
		// inside a loop clause the loop-carried variable shadows the parameter of the same name (old(x) is the parameter)
		for _, in := range c.hdr.Instrs {
			if phi, ok := in.(*ssa.Phi); ok && phi.Comment == name {
				if v, ok := c.fr.env[phi]; ok {
					return v, nil
				}
			}
		}
	}
	if v, ok := c.vars[name]; ok {
		return v, nil
	}
	switch name {
	case "true", "false":
		return &Val{T: name, S: sBool}, nil
	case "nil":
		return &Val{T: "nil", S: "NIL"}, nil
	}
	if c.c != nil {
		if l, ok := c.c.Lets[name]; ok {
			return c.eval(l.E)
		}
	}
	if _, ok := c.e.specs.Ghosts[name]; ok {
		return &Val{T: c.e.ghostGet(c.st, c.ghost(), name), S: c.e.ghostSort(name)}, nil
	}
	if k, ok := c.e.specs.Consts[name]; ok {
		so, err := c.e.reg.specSort(k.Sort)
		if err != nil {
			return nil, err
		}
		return &Val{T: k.Val, S: so}, nil
	}
	if f, ok := c.e.specs.Funcs[name]; ok && len(f.Params) == 0 {
		return c.specCall(f, nil)
	}
	if c.fr != nil {
		if v := c.local(name); v != nil {
			return v, nil
		}
	}
	if c.pkg != nil {
		if v, err := c.pkgMember(c.pkg, name); err == nil {
			return v, nil
		}
	}
	return nil, fmt.Errorf("unknown identifier %q", name)
}

// local resolves a source-level local variable name inside the frame (for loop invariants / asserts).
func (c *EvalCtx) local(name string) *Val {
	fn := c.fr.fn
	if name == "$visited" || name == "$pos" || name == "$count" {
		return c.iterGhost(name)
	}
	if name == "$i" && c.hdr != nil {
		for _, in := range c.hdr.Instrs {
			if phi, ok := in.(*ssa.Phi); ok && phi.Comment == "rangeindex" {
				if v, ok := c.fr.env[phi]; ok {
					return &Val{T: "(bvadd " + v.T + " #x0000000000000001)", S: sBV64, Typ: types.Typ[types.Int]}
				}
			}
		}
	}
	// phi at the current header first
	if c.hdr != nil {
		for _, in := range c.hdr.Instrs {
			if phi, ok := in.(*ssa.Phi); ok && phi.Comment == name {
				if v, ok := c.fr.env[phi]; ok {
					return v
				}
			}
		}
	}
	// parameters / free variables
	for _, p := range fn.Params {
		if p.Name() == name {
			return c.fr.env[p]
		}
	}
	for _, p := range fn.FreeVars {
		if p.Name() == name {
			// free variables are pointers to the captured variable: deref
			if v, ok := c.fr.env[p]; ok {
				if pt, ok := p.Type().(*types.Pointer); ok {
					if lv, err := c.e.loadIn(c.st, c.heap(), v, pt.Elem()); err == nil {
						return lv
					}
				}
				return v
			}
		}
	}
	// named allocs (locals that live in memory) : load current content
	var cand ssa.Value
	for _, b := range fn.Blocks {
		for _, in := range b.Instrs {
			switch y := in.(type) {
			case *ssa.Alloc:
				if y.Comment == name {
					if v, ok := c.fr.env[y]; ok {
						lv, err := c.e.loadIn(c.st, c.heap(), v, y.Type().(*types.Pointer).Elem())
						if err == nil {
							return lv
						}
					}
				}
			case *ssa.DebugRef:
				if id, ok := y.Expr.(interface{ String() string }); ok {
					_ = id
				}
				if y.IsAddr {
					continue
				}
				if obj := y.Object(); obj != nil && obj.Name() == name {
					if _, ok := c.fr.env[y.X]; ok {
						cand = y.X
					}
				}
			}
		}
	}
	if cand != nil {
		return c.fr.env[cand]
	}
	if strings.HasPrefix(name, "t") {
		for v, val := range c.fr.env {
			if v.Name() == name {
				return val
			}
		}
	}
	return nil
}

func (c *EvalCtx) findPackage(alias string) *ssa.Package {
	if p, ok := c.e.specs.Imports[alias]; ok {
		if sp := c.e.pkgs[p]; sp != nil {
			return sp
		}
	}
	if sp := c.e.pkgs[alias]; sp != nil {
		return sp
	}
	// by package name, preferring an import of the contract's package
	if c.pkg != nil {
		for _, imp := range c.pkg.Pkg.Imports() {
			if imp.Name() == alias {
				return c.e.pkgs[imp.Path()]
			}
		}
	}
	return nil
}

func (c *EvalCtx) pkgMember(p *ssa.Package, name string) (*Val, error) {
	m := p.Members[name]
	switch y := m.(type) {
	case *ssa.Global:
		k := c.e.keyGlobal(y)
		so := c.e.heapSort(k)
		return &Val{T: c.e.heapGet(c.st, c.heap(), k), S: so, Typ: c.e.gtypes[k]}, nil
	case *ssa.NamedConst:
		cv := y.Value
		so := c.e.reg.sortOf(cv.Type())
		if cv.Value != nil {
			switch cv.Value.Kind() {
			case constant.Int:
				if w := bvWidth(so); w > 0 {
					if i, ok := constant.Int64Val(cv.Value); ok {
						return &Val{T: bvLit(uint64(i), w), S: so, Typ: cv.Type()}, nil
					}
					if u, ok := constant.Uint64Val(cv.Value); ok {
						return &Val{T: bvLit(u, w), S: so, Typ: cv.Type()}, nil
					}
				}
				if i, ok := constant.Int64Val(cv.Value); ok {
					return &Val{T: fmt.Sprint(i), S: "NUM"}, nil
				}
			case constant.String:
				return &Val{T: c.e.reg.strLit(constant.StringVal(cv.Value)), S: sStr, Typ: cv.Type()}, nil
			case constant.Bool:
				return &Val{T: fmt.Sprint(constant.BoolVal(cv.Value)), S: sBool}, nil
			}
		}
	case *ssa.Function:
		return &Val{T: c.e.funcConst(c.st, y), S: sFunc, Fn: y, Typ: y.Type()}, nil
	}
	return nil, fmt.Errorf("package %s has no usable member %s", p.Pkg.Path(), name)
}

func (c *EvalCtx) field(x *Expr) (*Val, error) {
	// package-qualified name?
	if x.Args[0].Op == "ident" {
		n := x.Args[0].S
		_, isVar := c.vars[n]
		_, isBound := c.bound[n]
		isLet := c.c != nil && c.c.Lets[n] != nil
		if !isVar && !isBound && !isLet {
			if p := c.findPackage(n); p != nil {
				return c.pkgMember(p, x.S)
			}
		}
	}
	b, err := c.eval(x.Args[0])
	if err != nil {
		return nil, err
	}
	return c.fieldOf(b, x.S)
}

func (c *EvalCtx) fieldOf(b *Val, name string) (*Val, error) {
	if b.Typ != nil {
		if pt, ok := b.Typ.Underlying().(*types.Pointer); ok {
			if stt, ok := pt.Elem().Underlying().(*types.Struct); ok {
				ss := c.e.reg.structSort(pt.Elem())
				for i := 0; i < stt.NumFields(); i++ {
					if stt.Field(i).Name() == name {
						ft := stt.Field(i).Type()
						if _, nested := ft.Underlying().(*types.Struct); nested {
							ref := fmt.Sprintf("(fieldref %s %d)", b.T, i)
							return &Val{T: c.e.loadStruct(c.st, c.heap(), ref, ft), S: c.e.reg.sortOf(ft), Typ: ft}, nil
						}
						return &Val{T: sel(c.e.heapGet(c.st, c.heap(), c.e.keyField(ss, i)), b.T), S: c.e.reg.sortOf(ft), Typ: ft}, nil
					}
				}
				return nil, fmt.Errorf("no field %s in %s", name, pt.Elem())
			}
		}
		if stt, ok := b.Typ.Underlying().(*types.Struct); ok {
			ss := c.e.reg.structSort(b.Typ)
			for i := 0; i < stt.NumFields(); i++ {
				if stt.Field(i).Name() == name {
					ft := stt.Field(i).Type()
					return &Val{T: fmt.Sprintf("(%s_f%d %s)", ss, i, b.T), S: c.e.reg.sortOf(ft), Typ: ft}, nil
				}
			}
			return nil, fmt.Errorf("no field %s in %s", name, b.Typ)
		}
	}
	if info, ok := c.e.reg.structs[b.S]; ok {
		for i, f := range info.Fields {
			if f == name {
				return &Val{T: fmt.Sprintf("(%s_f%d %s)", b.S, i, b.T), S: info.FSorts[i], Typ: info.FTypes[i]}, nil
			}
		}
	}
	return nil, fmt.Errorf("cannot select field %s of %s", name, b)
}

func (c *EvalCtx) index(x *Expr) (*Val, error) {
	a, err := c.eval(x.Args[0])
	if err != nil {
		return nil, err
	}
	if strings.HasPrefix(a.S, "(Array ") {
		ks, vs := arraySorts(a.S)
		k, err := c.evalAs(x.Args[1], ks)
		if err != nil {
			return nil, err
		}
		var et types.Type
		if a.Typ != nil {
			if at, ok := a.Typ.Underlying().(*types.Array); ok {
				et = at.Elem()
			}
		}
		return &Val{T: sel(a.T, k.T), S: vs, Typ: et}, nil
	}
	if a.Typ != nil {
		switch u := a.Typ.Underlying().(type) {
		case *types.Map:
			ks, vs := c.e.reg.sortOf(u.Key()), c.e.reg.sortOf(u.Elem())
			k, err := c.evalAs(x.Args[1], ks)
			if err != nil {
				return nil, err
			}
			return &Val{T: sel(sel(c.e.heapGet(c.st, c.heap(), c.e.keyMapV(ks, vs)), a.T), k.T), S: vs, Typ: u.Elem()}, nil
		case *types.Slice:
			if a.S == sSlice {
				i, err := c.evalAs(x.Args[1], sBV64)
				if err != nil {
					return nil, err
				}
				es := c.e.reg.sortOf(u.Elem())
				h := c.e.heapGet(c.st, c.heap(), c.e.keyElem(es))
				return &Val{T: sel(sel(h, "(s_ref "+a.T+")"), "(bvadd (s_off "+a.T+") "+i.T+")"), S: es, Typ: u.Elem()}, nil
			}
		}
	}
	switch a.S {
	case sStr, sBytes:
		i, err := c.evalAs(x.Args[1], sBV64)
		if err != nil {
			return nil, err
		}
		s := a.T
		if a.S == sBytes {
			s = "(b_str " + a.T + ")"
		}
		return &Val{T: "(sat " + s + " " + i.T + ")", S: sBV8, Typ: types.Typ[types.Uint8]}, nil
	}
	return nil, fmt.Errorf("cannot index %s", a)
}

func (c *EvalCtx) call(x *Expr) (*Val, error) {
	argv := func(i int) (*Val, error) { return c.eval(x.Args[i]) }
	switch x.S {
	case "len":
		a, err := argv(0)
		if err != nil {
			return nil, err
		}
		switch a.S {
		case sStr, sBytes:
			t := "(slen " + a.T + ")"
			if a.S == sBytes {
				t = "(slen (b_str " + a.T + "))"
			}
			if !strings.Contains(t, "q_") && !c.st.asserted["nn:"+t] {
				// every string has a non-negative length below 2^48 (a fact, not an obligation)
				c.st.asserted["nn:"+t] = true
				c.st.pc = append(c.st.pc, "(bvule "+t+" #x0000ffffffffffff)")
			}
			return &Val{T: t, S: sBV64, Typ: types.Typ[types.Int]}, nil
		case sSlice:
			return &Val{T: "(s_len " + a.T + ")", S: sBV64, Typ: types.Typ[types.Int]}, nil
		}
		return nil, fmt.Errorf("len of %s", a)
	case "cap":
		a, err := argv(0)
		if err != nil {
			return nil, err
		}
		if a.S == sSlice {
			return &Val{T: "(s_cap " + a.T + ")", S: sBV64, Typ: types.Typ[types.Int]}, nil
		}
		return nil, fmt.Errorf("cap of %s", a)
	case "str":
		a, err := argv(0)
		if err != nil {
			return nil, err
		}
		if a.S == sBytes {
			return &Val{T: "(b_str " + a.T + ")", S: sStr, Typ: types.Typ[types.String]}, nil
		}
		if a.S == sStr {
			return a, nil
		}
		return nil, fmt.Errorf("str of %s", a)
	case "bytes":
		a, err := argv(0)
		if err != nil {
			return nil, err
		}
		if a.S == sStr {
			return &Val{T: "(mkBytes false " + a.T + ")", S: sBytes}, nil
		}
		return nil, fmt.Errorf("bytes of %s", a)
	case "isnil":
		a, err := argv(0)
		if err != nil {
			return nil, err
		}
		t, err := c.equal(a, &Val{T: "nil", S: "NIL"})
		return &Val{T: t, S: sBool}, err
	case "deref":
		a, err := argv(0)
		if err != nil {
			return nil, err
		}
		if a.Typ == nil {
			return nil, fmt.Errorf("deref of untyped value")
		}
		pt, ok := a.Typ.Underlying().(*types.Pointer)
		if !ok {
			return nil, fmt.Errorf("deref of non-pointer %s", a.Typ)
		}
		return c.e.loadIn(c.st, c.heap(), a, pt.Elem())
	case "sub":
		s, err := c.evalAs(x.Args[0], sStr)
		if err != nil {
			return nil, err
		}
		lo, err := c.evalAs(x.Args[1], sBV64)
		if err != nil {
			return nil, err
		}
		hi, err := c.evalAs(x.Args[2], sBV64)
		if err != nil {
			return nil, err
		}
		return &Val{T: "(ssub " + s.T + " " + lo.T + " " + hi.T + ")", S: sStr}, nil
	case "fresh":
		a, err := argv(0)
		if err != nil {
			return nil, err
		}
		r := a.T
		switch a.S {
		case sIface:
			r = "(i_ref " + a.T + ")"
		case sSlice:
			r = "(s_ref " + a.T + ")"
		case sInt:
		default:
			return nil, fmt.Errorf("fresh of sort %s", a.S)
		}
		if c.assume {
			return &Val{T: eq(r, c.st.newRef()), S: sBool}, nil
		}
		var alts []string
		for i, al := range c.st.allocs {
			if i >= c.entryAllocs {
				alts = append(alts, eq(r, al))
			}
		}
		return &Val{T: or(alts...), S: sBool}, nil
	case "mapHas", "mapVal":
		a, err := argv(0)
		if err != nil {
			return nil, err
		}
		if a.Typ == nil {
			return nil, fmt.Errorf("%s of untyped value", x.S)
		}
		mt, ok := a.Typ.Underlying().(*types.Map)
		if !ok {
			return nil, fmt.Errorf("%s of non-map %s", x.S, a.Typ)
		}
		ks, vs := c.e.reg.sortOf(mt.Key()), c.e.reg.sortOf(mt.Elem())
		if x.S == "mapHas" {
			return &Val{T: sel(c.e.heapGet(c.st, c.heap(), c.e.keyMapP(ks, vs)), a.T), S: arr(ks, sBool)}, nil
		}
		return &Val{T: sel(c.e.heapGet(c.st, c.heap(), c.e.keyMapV(ks, vs)), a.T), S: arr(ks, vs), Typ: types.NewArray(mt.Elem(), 0)}, nil
	case "strAt", "bytesAt":
		// element j of a []string / [][]byte given only as a slice header (ghost record)
		a, err := argv(0)
		if err != nil {
			return nil, err
		}
		j, err := c.evalAs(x.Args[1], sBV64)
		if err != nil {
			return nil, err
		}
		if a.S != sSlice {
			return nil, fmt.Errorf("%s of non-slice", x.S)
		}
		es := sStr
		if x.S == "bytesAt" {
			es = sBytes
		}
		h := c.e.heapGet(c.st, c.heap(), c.e.keyElem(es))
		return &Val{T: sel(sel(h, "(s_ref "+a.T+")"), "(bvadd (s_off "+a.T+") "+j.T+")"), S: es}, nil
	case "unboxSlice":
		a, err := argv(0)
		if err != nil {
			return nil, err
		}
		return &Val{T: "(boxval_Slice (i_ref " + a.T + "))", S: sSlice}, nil
	case "unboxStr", "unboxBytes", "unboxPtrBytes", "unboxPtrStr", "unboxPtrU64":
		a, err := argv(0)
		if err != nil {
			return nil, err
		}
		if a.S != sIface {
			return nil, fmt.Errorf("%s of non-interface %s", x.S, a)
		}
		switch x.S {
		case "unboxStr":
			return &Val{T: "(boxval_Str (i_ref " + a.T + "))", S: sStr, Typ: types.Typ[types.String]}, nil
		case "unboxBytes":
			return &Val{T: "(boxval_Bytes (i_ref " + a.T + "))", S: sBytes, Typ: types.NewSlice(types.Typ[types.Uint8])}, nil
		case "unboxPtrBytes":
			return &Val{T: "(i_ref " + a.T + ")", S: sInt, Typ: types.NewPointer(types.NewSlice(types.Typ[types.Uint8]))}, nil
		case "unboxPtrU64":
			return &Val{T: "(i_ref " + a.T + ")", S: sInt, Typ: types.NewPointer(types.Typ[types.Uint64])}, nil
		default:
			return &Val{T: "(i_ref " + a.T + ")", S: sInt, Typ: types.NewPointer(types.Typ[types.String])}, nil
		}
	case "unboxPtr":
		// unboxPtr(x, alias.Type): the pointer held by interface value x, read as *alias.Type (a named struct type of the
		// program).  Says nothing about the dynamic type: use it where the conversion is known to have happened.
		if len(x.Args) != 2 {
			return nil, fmt.Errorf("unboxPtr(x, pkg.Type)")
		}
		a, err := argv(0)
		if err != nil {
			return nil, err
		}
		if a.S != sIface {
			return nil, fmt.Errorf("unboxPtr of non-interface %s", a)
		}
		tn := ""
		switch t := x.Args[1]; {
		case t.Op == "ident":
			tn = t.S
			if c.pkg != nil {
				tn = c.pkg.Pkg.Path() + "." + t.S
			}
		case t.Op == "field" && len(t.Args) == 1 && t.Args[0].Op == "ident":
			tn = c.e.specs.qualifyPattern(t.Args[0].S + "." + t.S)
		}
		i := strings.LastIndex(tn, ".")
		if i < 0 {
			return nil, fmt.Errorf("unboxPtr: bad type name")
		}
		p := c.e.pkgs[tn[:i]]
		if p == nil {
			return nil, fmt.Errorf("unboxPtr: unknown package %s", tn[:i])
		}
		tt, ok := p.Members[tn[i+1:]].(*ssa.Type)
		if !ok {
			return nil, fmt.Errorf("unboxPtr: %s is not a type", tn)
		}
		return &Val{T: "(i_ref " + a.T + ")", S: sInt, Typ: types.NewPointer(tt.Type())}, nil
	case "addr":
		// addr(name): the address of a local variable that lives in memory
		if len(x.Args) == 1 && x.Args[0].Op == "ident" && c.fr != nil {
			for _, fv := range c.fr.fn.FreeVars {
				if fv.Name() == x.Args[0].S {
					if v, ok := c.fr.env[fv]; ok {
						return v, nil
					}
				}
			}
			for _, b := range c.fr.fn.Blocks {
				for _, in := range b.Instrs {
					if al, ok := in.(*ssa.Alloc); ok && al.Comment == x.Args[0].S {
						if v, ok := c.fr.env[al]; ok {
							return v, nil
						}
					}
				}
			}
		}
		return nil, fmt.Errorf("addr: no such local in memory")
	case "boxed":
		// the concrete value inside an interface value, where the conversion happened on this path
		a, err := c.eval(x.Args[0])
		if err != nil {
			return nil, err
		}
		if a.Box == nil {
			return nil, fmt.Errorf("boxed(%s): the dynamic value of the interface is not known here", x.Args[0].S)
		}
		return a.Box, nil
	case "cat2":
		// raw binary concatenation term (no flattening): used to state associativity instances
		a, err := c.evalAs(x.Args[0], sStr)
		if err != nil {
			return nil, err
		}
		b, err := c.evalAs(x.Args[1], sStr)
		if err != nil {
			return nil, err
		}
		return &Val{T: "(scat " + a.T + " " + b.T + ")", S: sStr}, nil
	case "refOf":
		a, err := argv(0)
		if err != nil {
			return nil, err
		}
		switch a.S {
		case sIface:
			return &Val{T: "(i_ref " + a.T + ")", S: sInt}, nil
		case sInt:
			return a, nil
		case sSlice:
			return &Val{T: "(s_ref " + a.T + ")", S: sInt}, nil
		}
		return nil, fmt.Errorf("refOf of %s", a)
	case "rowOf", "offOf":
		a, err := argv(0)
		if err != nil {
			return nil, err
		}
		if a.S != sSlice || a.Typ == nil {
			return nil, fmt.Errorf("%s of non-slice %s", x.S, a)
		}
		if x.S == "offOf" {
			return &Val{T: "(s_off " + a.T + ")", S: sBV64}, nil
		}
		et := a.Typ.Underlying().(*types.Slice).Elem()
		es := c.e.reg.sortOf(et)
		return &Val{T: sel(c.e.heapGet(c.st, c.heap(), c.e.keyElem(es)), "(s_ref "+a.T+")"), S: arr(sBV64, es), Typ: types.NewArray(et, 0)}, nil
	case "typeid":
		// typeid(x): dynamic type tag of an interface value
		a, err := argv(0)
		if err != nil {
			return nil, err
		}
		return &Val{T: "(i_typ " + a.T + ")", S: sInt}, nil
	case "sext", "zext":
		return nil, fmt.Errorf("%s not supported", x.S)
	}
	if f, ok := c.e.specs.Funcs[x.S]; ok {
		var args []*Val
		for i := range x.Args {
			a, err := argv(i)
			if err != nil {
				return nil, err
			}
			args = append(args, a)
		}
		return c.specCall(f, args)
	}
	return nil, fmt.Errorf("unknown function %q", x.S)
}

func (c *EvalCtx) specCall(f *SpecFunc, args []*Val) (*Val, error) {
	if len(args) != len(f.Params) {
		return nil, fmt.Errorf("spec func %s: %d args, want %d", f.Name, len(args), len(f.Params))
	}
	rs, err := c.e.reg.specSort(f.Ret)
	if err != nil {
		return nil, err
	}
	var cargs []*Val
	for i, a := range args {
		ps, err := c.e.reg.specSort(f.PSorts[i])
		if err != nil {
			return nil, err
		}
		ca, err := c.coerce(a, ps)
		if err != nil {
			return nil, fmt.Errorf("spec func %s arg %d: %v", f.Name, i, err)
		}
		cargs = append(cargs, ca)
	}
	if f.Def != nil {
		sub := &EvalCtx{e: c.e, st: c.st, old: c.old, inOld: c.inOld, vars: map[string]*Val{}, pkg: c.pkg, assume: c.assume, bound: c.bound, depth: c.depth, entryAllocs: c.entryAllocs}
		for i, p := range f.Params {
			sub.vars[p] = cargs[i]
		}
		v, err := sub.eval(f.Def)
		if err != nil {
			return nil, fmt.Errorf("in %s: %v", f.Name, err)
		}
		return sub.coerce(v, rs)
	}
	if len(cargs) == 0 {
		return &Val{T: f.Name, S: rs}, nil
	}
	var ts []string
	for _, a := range cargs {
		ts = append(ts, a.T)
	}
	return &Val{T: "(" + f.Name + " " + strings.Join(ts, " ") + ")", S: rs}, nil
}

// catDistribute concatenates two string terms, distributing over a top-level (ite c x y) operand so that the
// result stays in the canonical right-nested form on each branch (no associativity reasoning is left to the solver).
func (c *EvalCtx) catDistribute(a, b string) string {
	if cd, x, y, ok := splitIte(b); ok {
		return ite(cd, c.catDistribute(a, x), c.catDistribute(a, y))
	}
	if cd, x, y, ok := splitIte(a); ok {
		return ite(cd, c.catDistribute(x, b), c.catDistribute(y, b))
	}
	return c.e.strCat(c.st, a, b)
}

func splitIte(t string) (string, string, string, bool) {
	if !strings.HasPrefix(t, "(ite ") {
		return "", "", "", false
	}
	parts := splitSexprs(t[5 : len(t)-1])
	if len(parts) != 3 {
		return "", "", "", false
	}
	return parts[0], parts[1], parts[2], true
}
