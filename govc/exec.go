package main

// Symbolic execution of go/ssa functions, path-wise, producing verification conditions.

import (
	"fmt"
	"go/constant"
	"go/token"
	"go/types"
	"sort"
	"strings"

	"golang.org/x/tools/go/ssa"
)

type Config struct {
	MaxPaths   int
	MaxInline  int
	Safety     bool
	RepoPrefix string
}

type Engine struct {
	prog         *ssa.Program
	pkgs         map[string]*ssa.Package
	specs        *Specs
	reg          *SortReg
	hsorts       map[string]string
	gtypes       map[string]types.Type
	obls         []*Obligation
	cfg          Config
	curFn        *ssa.Function
	curC         *Contract
	warnings     []string
	errors       []string
	paths        int
	sentinel     map[string]bool // heap keys (G|...) of sentinel globals
	uncontracted map[string]int
	assumedUsed  map[string]bool
	degraded     []string
	atCallSeen   map[*Clause]bool
	inlinedUsed  map[string]bool
	funcConsts   map[string]string
	abort        bool
	known        []KnownFinding
	mode         string
	topVars      map[string]*Val
	topPkg       *ssa.Package
	topFrame     *Frame
	noAxioms     bool
}

type KnownFinding struct {
	Property   string `json:"property"`
	Function   string `json:"function"`
	Obligation string `json:"obligation"`
	Region     string `json:"region"`
	What       string `json:"what"`
}

type Obligation struct {
	ID     string   `json:"id"`
	Func   string   `json:"func"`
	Kind   string   `json:"kind"`
	Tags   []string `json:"tags"`
	Clause string   `json:"clause"`
	Where  string   `json:"where"`
	Path   int      `json:"path"`
	Trail  string   `json:"trail"`
	Expect string   `json:"expect"`
	Result string   `json:"result"`
	Solver string   `json:"solver"`
	Secs   float64  `json:"secs"`
	Model  string   `json:"model,omitempty"`
	Query  string   `json:"-"`
	Probes []Probe  `json:"-"`
	Prefer []string `json:"-"`
	Status string   `json:"status"` // discharged, failed, unknown, vacuous, ok(for expect=sat)
	Notes  []string `json:"notes,omitempty"` // over-approximations taken on this path (e.g. a call without a contract)
}

type Probe struct {
	Name string
	Term string
}

type deferred struct {
	call *ssa.CallCommon
	args []*Val // evaluated at defer time (receiver/fn value first if any)
	fnv  *Val
	pos  token.Pos
}

type Frame struct {
	fn       *ssa.Function
	env      map[ssa.Value]*Val
	defers   []*deferred
	prev     *ssa.BasicBlock
	active   map[*ssa.BasicBlock]bool
	depth    int
	top      bool
	loops    *loopInfo
	variants map[int]*Val
	loopPre  map[int]map[string]string // per loop: heap terms at loop entry (before havoc)
}

func (f *Frame) clone() *Frame {
	n := &Frame{fn: f.fn, env: make(map[ssa.Value]*Val, len(f.env)+8), prev: f.prev, depth: f.depth, top: f.top, loops: f.loops}
	for k, v := range f.env {
		n.env[k] = v
	}
	n.defers = append([]*deferred(nil), f.defers...)
	n.active = map[*ssa.BasicBlock]bool{}
	n.loopPre = f.loopPre
	if f.variants != nil {
		n.variants = map[int]*Val{}
		for k, v := range f.variants {
			n.variants[k] = v
		}
	}
	for k, v := range f.active {
		n.active[k] = v
	}
	return n
}

type retK func(st *State, results []*Val)

func (e *Engine) warnf(format string, a ...interface{}) {
	w := fmt.Sprintf(format, a...)
	for _, x := range e.warnings {
		if x == w {
			return
		}
	}
	e.warnings = append(e.warnings, w)
}

func (e *Engine) errorf(format string, a ...interface{}) {
	w := fmt.Sprintf(format, a...)
	for _, x := range e.errors {
		if x == w {
			return
		}
	}
	e.errors = append(e.errors, w)
}

func (e *Engine) isSentinelKey(k string) bool { return e.sentinel[k] }

// ---------------------------------------------------------------- operands

func (e *Engine) constVal(st *State, c *ssa.Const) *Val {
	t := c.Type()
	so := e.reg.sortOf(t)
	v := &Val{S: so, Typ: t}
	if c.Value == nil {
		v.T = e.reg.zero(so)
		return v
	}
	switch c.Value.Kind() {
	case constant.Bool:
		if constant.BoolVal(c.Value) {
			v.T = "true"
		} else {
			v.T = "false"
		}
	case constant.String:
		v.T = e.reg.strLit(constant.StringVal(c.Value))
	case constant.Int:
		w := bvWidth(so)
		if w == 0 {
			v.T = st.fresh("constnum", so)
			return v
		}
		if i, ok := constant.Int64Val(c.Value); ok {
			v.T = bvLit(uint64(i), w)
		} else if u, ok := constant.Uint64Val(c.Value); ok {
			v.T = bvLit(u, w)
		} else {
			v.T = st.fresh("bigconst", so)
		}
	default:
		// floats etc: an opaque but fixed constant per literal text
		name := "fconst_" + mangle(c.Value.ExactString())
		st.declare(name, so)
		v.T = name
	}
	return v
}

func (e *Engine) funcConst(st *State, fn *ssa.Function) string {
	name := "fn_" + mangle(fn.String())
	st.declare(name, sFunc)
	if f := not(eq(name, "nil_func")); !st.asserted[f] {
		st.assume(f) // a function constant is never the nil func value
	}
	return name
}

func (e *Engine) operand(fr *Frame, st *State, v ssa.Value) *Val {
	switch x := v.(type) {
	case *ssa.Const:
		return e.constVal(st, x)
	case *ssa.Global:
		k := e.keyGlobal(x)
		return &Val{T: fmt.Sprintf("%d", 1000000+len(k)), S: sInt, Typ: x.Type(), Addr: &Addr{Kind: "global", Key: k}}
	case *ssa.Function:
		return &Val{T: e.funcConst(st, x), S: sFunc, Typ: x.Type(), Fn: x}
	case *ssa.Builtin:
		return &Val{T: "builtin", S: sFunc}
	}
	if r, ok := fr.env[v]; ok {
		return r
	}
	e.errorf("%s: operand %s (%T) has no value", fr.fn, v.Name(), v)
	so := e.reg.sortOf(v.Type())
	return &Val{T: st.fresh("undef", so), S: so, Typ: v.Type()}
}

// ---------------------------------------------------------------- heap access

func factKey(a *Addr) string {
	if a.Kind == "elemfield" {
		return fmt.Sprintf("%s@%s@%s@f%d", a.Key, a.Base, a.Idx, a.Field)
	}
	if a.Kind == "elem" {
		return a.Key + "@" + a.Base + "@" + a.Idx
	}
	return a.Key + "@" + a.Base
}

func (e *Engine) addrOf(p *Val, elem types.Type) (*Addr, bool) {
	if p.Addr != nil {
		return p.Addr, true
	}
	switch elem.Underlying().(type) {
	case *types.Struct, *types.Array:
		return nil, false
	}
	return &Addr{Kind: "cell", Key: e.keyCell(e.reg.sortOf(elem)), Base: p.T}, true
}

// fieldRef: the address of the nested struct in field i of the object at ref.  A sub-object belongs to the same
// generation as its parent: inside an allocation of this path (negative reference) it is no pre-existing object, inside a
// pre-existing object (positive) it is one.
func (e *Engine) fieldRef(st *State, ref string, i int) string {
	t := fmt.Sprintf("(fieldref %s %d)", ref, i)
	if st != nil && !strings.Contains(t, "q_") {
		if f := "(and (=> (< " + ref + " 0) (< " + t + " 0)) (=> (> " + ref + " 0) (> " + t + " 0)))"; !st.asserted[f] {
			st.assume(f)
		}
	}
	return t
}

func (e *Engine) loadStruct(st *State, m map[string]string, ref string, t types.Type) string {
	ss := e.reg.structSort(t)
	info := e.reg.structs[ss]
	if len(info.FSorts) == 0 {
		return fmt.Sprintf("(mk_%s false)", ss)
	}
	var fs []string
	for i := range info.Fields {
		if _, isStruct := info.FTypes[i].Underlying().(*types.Struct); isStruct {
			fs = append(fs, e.loadStruct(st, m, e.fieldRef(st, ref, i), info.FTypes[i]))
			continue
		}
		fs = append(fs, sel(e.heapGet(st, m, e.keyField(ss, i)), ref))
	}
	return fmt.Sprintf("(mk_%s %s)", ss, strings.Join(fs, " "))
}

func (e *Engine) storeStruct(st *State, ref string, t types.Type, val string) {
	ss := e.reg.structSort(t)
	info := e.reg.structs[ss]
	for i := range info.Fields {
		fv := fmt.Sprintf("(%s_f%d %s)", ss, i, val)
		if _, isStruct := info.FTypes[i].Underlying().(*types.Struct); isStruct {
			e.storeStruct(st, e.fieldRef(st, ref, i), info.FTypes[i], fv)
			continue
		}
		k := e.keyField(ss, i)
		e.heapSet(st, k, sto(e.heapGet(st, st.heap, k), ref, fv))
		delete(st.facts, k+"@"+ref)
	}
}

// loadIn loads through pointer p from heap map m (st.heap or a snapshot).
func (e *Engine) loadIn(st *State, m map[string]string, p *Val, elem types.Type) (*Val, error) {
	so := e.reg.sortOf(elem)
	res := &Val{S: so, Typ: elem}
	a, ok := e.addrOf(p, elem)
	if !ok {
		switch elem.Underlying().(type) {
		case *types.Struct:
			res.T = e.loadStruct(st, m, p.T, elem)
			return res, nil
		case *types.Array:
			es := e.reg.sortOf(elem.Underlying().(*types.Array).Elem())
			res.T = sel(e.heapGet(st, m, e.keyElem(es)), p.T)
			return res, nil
		}
	}
	switch a.Kind {
	case "global":
		res.T = e.heapGet(st, m, a.Key)
	case "field", "cell":
		res.T = sel(e.heapGet(st, m, a.Key), a.Base)
	case "elem":
		res.T = sel(sel(e.heapGet(st, m, a.Key), a.Base), a.Idx)
	case "elemfield":
		res.T = fmt.Sprintf("(%s_f%d %s)", a.Struct, a.Field, sel(sel(e.heapGet(st, m, a.Key), a.Base), a.Idx))
	case "byteat":
		res.T = "(sat " + a.Base + " " + a.Idx + ")"
	default:
		return nil, fmt.Errorf("load through unsupported address kind %s", a.Kind)
	}
	if a.Kind != "byteat" {
		if f, ok := st.facts[factKey(a)]; ok && &m != nil {
			// executor-level knowledge survives only for the current heap
			if sameMap(m, st.heap) {
				res.Fn, res.Bind, res.Dyn, res.Box = f.Fn, f.Bind, f.Dyn, f.Box
			}
		}
	}
	return res, nil
}

func sameMap(a, b map[string]string) bool {
	// identity comparison of maps via a sentinel trick is not possible; compare lengths and a sample
	if len(a) != len(b) {
		return false
	}
	for k, v := range a {
		if b[k] != v {
			return false
		}
	}
	return true
}

func (e *Engine) load(st *State, p *Val, elem types.Type) (*Val, error) {
	v, err := e.loadIn(st, st.heap, p, elem)
	if err != nil {
		return nil, err
	}
	// name the loaded value (always when the term mentions an allocation, so that escape tracking, which looks
	// for allocation numerals in terms, is not confused by a mere index) and record well-formedness
	if len(v.T) > 60 || strings.Contains(v.T, "(- ") {
		n := st.fresh("ld", v.S)
		st.pc = append(st.pc, eq(n, v.T))
		v.T = n
	}
	st.assume(e.wfVal(st, v.T, v.S))
	if p.Addr != nil && p.Addr.Kind == "field" {
		v.From = p.Addr
	}
	if v.S == sBytes && !strings.HasPrefix(p.T, "(- ") && !(p.Addr != nil && strings.HasPrefix(p.Addr.Base, "(- ")) {
		// a []byte read out of an object that existed before this call: whoever else holds that object sees its bytes
		v.Shared = "a []byte stored in memory that other code can reach"
	}
	return v, nil
}

// guardCheck emits lock-discipline obligations for accesses to a guarded map/slice field.
func (e *Engine) guardCheck(fr *Frame, st *State, v *Val, write bool, pos token.Pos) {
	if v.From == nil || len(e.specs.Guards) == 0 {
		return
	}
	for _, g := range e.specs.Guards {
		ss, ok := e.reg.byType[g.Struct]
		if !ok {
			continue
		}
		info := e.reg.structs[ss]
		fi, mi := -1, -1
		for i, f := range info.Fields {
			if f == g.Field {
				fi = i
			}
			if f == g.Mutex {
				mi = i
			}
		}
		if fi < 0 || mi < 0 || v.From.Key != e.keyField(ss, fi) {
			continue
		}
		mu := fmt.Sprintf("(fieldref %s %d)", v.From.Base, mi)
		wl := sel(e.ghostGet(st, st.ghost, "wl"), mu)
		rl := sel(e.ghostGet(st, st.ghost, "rl"), mu)
		goal := wl
		what := "write to " + g.Field + " with " + g.Mutex + " held exclusively"
		if !write {
			goal = or(wl, "(> "+rl+" 0)")
			what = "read of " + g.Field + " with " + g.Mutex + " held"
		}
		e.addObligation(st, fr, "guarded-by", g.Tags, what, e.posStr(pos), goal, nil)
	}
}

func (e *Engine) store(st *State, p *Val, elem types.Type, v *Val) error {
	a, ok := e.addrOf(p, elem)
	if !ok {
		switch elem.Underlying().(type) {
		case *types.Struct:
			e.storeStruct(st, p.T, elem, v.T)
			return nil
		case *types.Array:
			es := e.reg.sortOf(elem.Underlying().(*types.Array).Elem())
			k := e.keyElem(es)
			e.heapSet(st, k, sto(e.heapGet(st, st.heap, k), p.T, v.T))
			return nil
		}
	}
	switch a.Kind {
	case "global":
		if e.sentinel[a.Key] {
			return fmt.Errorf("store to sentinel global %s", a.Key)
		}
		st.heap[a.Key] = v.T
	case "field", "cell":
		e.heapSet(st, a.Key, sto(e.heapGet(st, st.heap, a.Key), a.Base, v.T))
	case "elem":
		h := e.heapGet(st, st.heap, a.Key)
		e.heapSet(st, a.Key, sto(h, a.Base, sto(sel(h, a.Base), a.Idx, v.T)))
	case "elemfield":
		h := e.heapGet(st, st.heap, a.Key)
		cur := sel(sel(h, a.Base), a.Idx)
		info := e.reg.structs[a.Struct]
		var fs []string
		for i := range info.Fields {
			if i == a.Field {
				fs = append(fs, v.T)
			} else {
				fs = append(fs, fmt.Sprintf("(%s_f%d %s)", a.Struct, i, cur))
			}
		}
		e.heapSet(st, a.Key, sto(h, a.Base, sto(sel(h, a.Base), a.Idx, "(mk_"+a.Struct+" "+strings.Join(fs, " ")+")")))
	default:
		return fmt.Errorf("store through unsupported address kind %s (outside subset: []byte element store)", a.Kind)
	}
	if v.Fn != nil || v.Dyn != nil || v.Borrowed != "" {
		st.facts[factKey(a)] = v
	} else {
		delete(st.facts, factKey(a))
	}
	// a store through a symbolic base may alias other facts of the same key: drop facts with a different base
	for k := range st.facts {
		if strings.HasPrefix(k, a.Key+"@") && k != factKey(a) && !distinctRefs(k[len(a.Key)+1:], a.Base) {
			// same object: distinct literal indices cannot alias
			rest := k[len(a.Key)+1:]
			if a.Kind == "elem" && strings.HasPrefix(rest, a.Base+"@#x") && strings.HasPrefix(a.Idx, "#x") {
				continue
			}
			delete(st.facts, k)
		}
	}
	return nil
}

// distinctRefs: syntactic check that two ref terms are certainly different (both fresh allocation numerals).
func distinctRefs(a, b string) bool {
	if i := strings.Index(a, "@"); i >= 0 {
		a = a[:i]
	}
	return strings.HasPrefix(a, "(- ") && strings.HasPrefix(b, "(- ") && a != b
}

// ---------------------------------------------------------------- safety obligations

func (e *Engine) safety(fr *Frame, st *State, what, cond string, pos token.Pos) {
	if cond == "true" {
		return
	}
	if e.cfg.Safety {
		goal := cond
		// known findings on panic-freedom: carved out by a region over the function's parameters
		if fr.depth == 0 && fr.fn == e.curFn {
			for _, kf := range e.known {
				if kf.Obligation != "safety" || !strings.HasSuffix(fr.fn.String(), kf.Function) {
					continue
				}
				rx, err := parseExpr(kf.Region)
				if err != nil {
					e.errorf("known finding safety: %v", err)
					continue
				}
				rv, err := e.loopCtx(fr, st, nil, false).evalAs(rx, sBool)
				if err != nil {
					e.errorf("known finding safety region: %v", err)
					continue
				}
				e.addObligation(st, fr, "known-inside", []string{"safety"}, what, kf.Region, "(=> "+rv.T+" "+cond+")", nil)
				goal = or(rv.T, goal)
			}
		}
		e.addObligation(st, fr, "safety:"+what, []string{"safety"}, what, e.posStr(pos), goal, nil)
	}
	st.assume(cond)
}

func (e *Engine) posStr(p token.Pos) string {
	if !p.IsValid() {
		return ""
	}
	pp := e.prog.Fset.Position(p)
	return fmt.Sprintf("%s:%d", pp.Filename, pp.Line)
}

// ---------------------------------------------------------------- instructions

func isSigned(t types.Type) bool {
	if b, ok := t.Underlying().(*types.Basic); ok {
		return b.Info()&types.IsInteger != 0 && b.Info()&types.IsUnsigned == 0
	}
	return false
}

func (e *Engine) binop(fr *Frame, st *State, in *ssa.BinOp) (*Val, error) {
	x := e.operand(fr, st, in.X)
	y := e.operand(fr, st, in.Y)
	rs := e.reg.sortOf(in.Type())
	res := &Val{S: rs, Typ: in.Type()}
	signed := isSigned(in.X.Type())
	w := bvWidth(x.S)
	bv := func(op string) string { return "(" + op + " " + x.T + " " + y.T + ")" }
	switch in.Op {
	case token.EQL, token.NEQ:
		t := e.equalVals(st, x, y)
		if in.Op == token.NEQ {
			t = not(t)
		}
		res.T = t
		return res, nil
	}
	if w > 0 {
		switch in.Op {
		case token.ADD:
			res.T = bv("bvadd")
		case token.SUB:
			res.T = bv("bvsub")
		case token.MUL:
			res.T = bv("bvmul")
		case token.QUO, token.REM:
			e.safety(fr, st, "division by zero", not(eq(y.T, bvLit(0, w))), in.Pos())
			op := "bvudiv"
			if in.Op == token.REM {
				op = "bvurem"
			}
			if signed {
				op = "bvsdiv"
				if in.Op == token.REM {
					op = "bvsrem"
				}
			}
			res.T = bv(op)
		case token.AND:
			res.T = bv("bvand")
		case token.OR:
			res.T = bv("bvor")
		case token.XOR:
			res.T = bv("bvxor")
		case token.AND_NOT:
			res.T = "(bvand " + x.T + " (bvnot " + y.T + "))"
		case token.SHL, token.SHR:
			yw := bvWidth(y.S)
			cnt := y.T
			over := "false"
			if yw < w {
				cnt = fmt.Sprintf("((_ zero_extend %d) %s)", w-yw, y.T)
			} else if yw > w {
				over = "(bvuge " + y.T + " " + bvLit(uint64(w), yw) + ")"
				cnt = fmt.Sprintf("((_ extract %d 0) %s)", w-1, y.T)
			}
			if isSigned(in.Y.Type()) {
				e.safety(fr, st, "negative shift count", "(bvsge "+y.T+" "+bvLit(0, yw)+")", in.Pos())
			}
			var sh string
			switch {
			case in.Op == token.SHL:
				sh = "(bvshl " + x.T + " " + cnt + ")"
				if over != "false" {
					sh = ite(over, bvLit(0, w), sh)
				}
			case signed:
				sh = "(bvashr " + x.T + " " + cnt + ")"
				if over != "false" {
					sh = ite(over, "(bvashr "+x.T+" "+bvLit(uint64(w-1), w)+")", sh)
				}
			default:
				sh = "(bvlshr " + x.T + " " + cnt + ")"
				if over != "false" {
					sh = ite(over, bvLit(0, w), sh)
				}
			}
			res.T = sh
		case token.LSS, token.LEQ, token.GTR, token.GEQ:
			ops := map[token.Token][2]string{token.LSS: {"bvult", "bvslt"}, token.LEQ: {"bvule", "bvsle"}, token.GTR: {"bvugt", "bvsgt"}, token.GEQ: {"bvuge", "bvsge"}}
			o := ops[in.Op][0]
			if signed {
				o = ops[in.Op][1]
			}
			res.T = bv(o)
		default:
			return nil, fmt.Errorf("unsupported integer binop %s", in.Op)
		}
		return res, nil
	}
	switch x.S {
	case sBool:
		switch in.Op {
		case token.LAND, token.AND:
			res.T = and(x.T, y.T)
		case token.LOR, token.OR:
			res.T = or(x.T, y.T)
		default:
			return nil, fmt.Errorf("unsupported bool binop %s", in.Op)
		}
		return res, nil
	case sStr:
		switch in.Op {
		case token.ADD:
			res.T = e.strCat(st, x.T, y.T)
			return res, nil
		case token.LSS, token.LEQ, token.GTR, token.GEQ:
		}
	}
	// opaque result (floats, string ordering ...)
	res.T = st.fresh("opaque_"+in.Op.String(), rs)
	e.warnf("%s: binop %s on sort %s modelled as opaque value", fr.fn, in.Op, x.S)
	return res, nil
}

// strCat builds concatenations in a canonical right-nested form, so that (a++b)++c and a++(b++c) are the same term.
func (e *Engine) strCat(st *State, a, b string) string {
	ps := append(scatPieces(a), scatPieces(b)...)
	var qs []string
	for _, p := range ps {
		if p == "empty_str" {
			continue
		}
		// adjacent literals are merged into one literal, so "a" ++ "b" and "ab" are the same term
		if n := len(qs); n > 0 {
			if t1, ok1 := e.reg.litText(qs[n-1]); ok1 {
				if t2, ok2 := e.reg.litText(p); ok2 {
					qs[n-1] = e.reg.strLit(t1 + t2)
					continue
				}
			}
		}
		qs = append(qs, p)
	}
	if len(qs) == 0 {
		return "empty_str"
	}
	t := qs[len(qs)-1]
	for i := len(qs) - 2; i >= 0; i-- {
		nt := "(scat " + qs[i] + " " + t + ")"
		if st != nil && !st.asserted["len:"+nt] && !strings.Contains(nt, "q_") { // (not for terms over quantifier-bound variables)
			// length of a concatenation (no string is longer than 2^48 bytes: no wrap-around)
			st.asserted["len:"+nt] = true
			st.pc = append(st.pc, "(= (slen "+nt+") (bvadd (slen "+qs[i]+") (slen "+t+")))",
				"(bvule (slen "+qs[i]+") #x0000ffffffffffff)", "(bvule (slen "+t+") #x0000ffffffffffff)")
		}
		t = nt
	}
	return t
}

// scatPieces flattens a (scat x y) term into its pieces.
func scatPieces(t string) []string {
	if !strings.HasPrefix(t, "(scat ") {
		return []string{t}
	}
	in := t[6 : len(t)-1]
	// split into two top-level s-expressions
	d := 0
	for i := 0; i < len(in); i++ {
		switch in[i] {
		case '(':
			d++
		case ')':
			d--
		case ' ':
			if d == 0 {
				return append(scatPieces(in[:i]), scatPieces(strings.TrimSpace(in[i+1:]))...)
			}
		}
	}
	return []string{t}
}

// equalVals: Go == on two values of the same sort.
func (e *Engine) equalVals(st *State, x, y *Val) string {
	return eq(x.T, y.T)
}

func (e *Engine) convert(fr *Frame, st *State, in *ssa.Convert) (*Val, error) {
	x := e.operand(fr, st, in.X)
	to := in.Type()
	ts := e.reg.sortOf(to)
	res := &Val{S: ts, Typ: to}
	fw, tw := bvWidth(x.S), bvWidth(ts)
	switch {
	case fw > 0 && tw > 0:
		switch {
		case fw == tw:
			res.T = x.T
		case fw > tw:
			res.T = fmt.Sprintf("((_ extract %d 0) %s)", tw-1, x.T)
		case isSigned(in.X.Type()):
			res.T = fmt.Sprintf("((_ sign_extend %d) %s)", tw-fw, x.T)
		default:
			res.T = fmt.Sprintf("((_ zero_extend %d) %s)", tw-fw, x.T)
		}
	case x.S == sBytes && ts == sStr:
		res.T = "(b_str " + x.T + ")"
	case x.S == sStr && ts == sBytes:
		res.T = "(mkBytes false " + x.T + ")"
	case x.S == ts:
		res.T = x.T
	default:
		res.T = st.fresh("conv", ts)
		st.assume(e.wfVal(st, res.T, ts))
		e.warnf("%s: conversion %s -> %s modelled as opaque value", fr.fn, in.X.Type(), to)
	}
	return res, nil
}

func (e *Engine) simpleInstr(fr *Frame, st *State, instr ssa.Instruction) (*Val, error) {
	switch in := instr.(type) {
	case *ssa.DebugRef:
		return nil, nil
	case *ssa.Alloc:
		pt := in.Type().(*types.Pointer).Elem()
		ref := st.newRef()
		v := &Val{T: ref, S: sInt, Typ: in.Type()}
		for _, zg := range e.specs.ZeroGhosts {
			if types.TypeString(pt, nil) == zg.Type {
				ctx := &EvalCtx{e: e, st: st, vars: map[string]*Val{}}
				gs := e.ghostSort(zg.Ghost)
				_, vs := arraySorts(gs)
				if zv, err := ctx.evalAs(zg.Value, vs); err == nil {
					st.ghost[zg.Ghost] = sto(e.ghostGet(st, st.ghost, zg.Ghost), ref, zv.T)
				}
			}
		}
		switch u := pt.Underlying().(type) {
		case *types.Struct:
			e.storeStruct(st, ref, pt, e.reg.zero(e.reg.structSort(pt)))
		case *types.Array:
			es := e.reg.sortOf(u.Elem())
			k := e.keyElem(es)
			e.heapSet(st, k, sto(e.heapGet(st, st.heap, k), ref, e.reg.zero(arr(sBV64, es))))
		default:
			so := e.reg.sortOf(pt)
			k := e.keyCell(so)
			e.heapSet(st, k, sto(e.heapGet(st, st.heap, k), ref, e.reg.zero(so)))
		}
		return v, nil
	case *ssa.BinOp:
		return e.binop(fr, st, in)
	case *ssa.UnOp:
		x := e.operand(fr, st, in.X)
		switch in.Op {
		case token.MUL:
			if x.Addr == nil {
				e.safety(fr, st, "nil dereference", not(eq(x.T, "0")), in.Pos())
			}
			return e.load(st, x, in.Type())
		case token.NOT:
			return &Val{T: not(x.T), S: sBool, Typ: in.Type()}, nil
		case token.SUB:
			if bvWidth(x.S) > 0 {
				return &Val{T: "(bvneg " + x.T + ")", S: x.S, Typ: in.Type()}, nil
			}
		case token.XOR:
			if bvWidth(x.S) > 0 {
				return &Val{T: "(bvnot " + x.T + ")", S: x.S, Typ: in.Type()}, nil
			}
		}
		return nil, fmt.Errorf("unsupported unop %s on %s", in.Op, x.S)
	case *ssa.Store:
		p := e.operand(fr, st, in.Addr)
		v := e.operand(fr, st, in.Val)
		if p.Addr == nil {
			// (addresses of fields / elements / globals are derived from a base that was already checked)
			e.safety(fr, st, "nil dereference", not(eq(p.T, "0")), in.Pos())
		}
		if v.Addr != nil && (v.Addr.Kind == "field" || v.Addr.Kind == "elem") {
			return nil, fmt.Errorf("interior pointer %s stored to memory (outside subset)", in.Val.Name())
		}
		st.markEscaped(v.T)
		if v.Borrowed != "" {
			if _, isVarargs := in.Addr.(*ssa.IndexAddr); !isVarargs {
				e.borrowCheck(fr, st, v, "stored in memory", in.Pos())
			}
		}
		return nil, e.store(st, p, in.Addr.Type().(*types.Pointer).Elem(), v)
	case *ssa.Convert:
		return e.convert(fr, st, in)
	case *ssa.ChangeType:
		x := e.operand(fr, st, in.X)
		n := *x
		n.Typ = in.Type()
		if ns := e.reg.sortOf(in.Type()); ns != x.S {
			return nil, fmt.Errorf("changetype across sorts %s -> %s", x.S, ns)
		}
		return &n, nil
	case *ssa.ChangeInterface:
		x := e.operand(fr, st, in.X)
		ts := e.reg.sortOf(in.Type())
		if ts == x.S {
			n := *x
			n.Typ = in.Type()
			return &n, nil
		}
		// error <-> any: keep executor-level knowledge, opaque term
		r := &Val{T: st.fresh("chgiface", ts), S: ts, Typ: in.Type(), Dyn: x.Dyn, Box: x.Box}
		return r, nil
	case *ssa.MakeInterface:
		x := e.operand(fr, st, in.X)
		ts := e.reg.sortOf(in.Type())
		r := &Val{S: ts, Typ: in.Type(), Dyn: in.X.Type(), Box: x}
		if ts == sErr {
			r.T = st.fresh("mkerr", sErr)
			st.assume(not(eq(r.T, "nil_err")))
			if _, ok := e.specs.Funcs["isSentinel"]; ok {
				// a value boxed here is a new error value, never one of the package-level sentinel variables
				st.assume(not("(isSentinel " + r.T + ")"))
			}
			return r, nil
		}
		tid := e.reg.typeID(in.X.Type())
		if x.S == sInt {
			r.T = fmt.Sprintf("(mkIface %d %s)", tid, x.T)
		} else {
			ref := st.newRef()
			r.T = fmt.Sprintf("(mkIface %d %s)", tid, ref)
			// the boxed value can be recovered by contracts (unboxStr / unboxBytes)
			switch x.S {
			case sStr:
				st.assume(eq("(boxval_Str "+ref+")", x.T))
			case sBytes:
				st.assume(eq("(boxval_Bytes "+ref+")", x.T))
			case sSlice:
				st.assume(eq("(boxval_Slice "+ref+")", x.T))
			}
		}
		return r, nil
	case *ssa.MakeClosure:
		fn := in.Fn.(*ssa.Function)
		r := &Val{T: st.fresh("closure", sFunc), S: sFunc, Typ: in.Type(), Fn: fn}
		st.assume(not(eq(r.T, "nil_func")))
		for _, b := range in.Bindings {
			bv := e.operand(fr, st, b)
			st.markEscaped(bv.T)
			r.Bind = append(r.Bind, bv)
		}
		return r, nil
	case *ssa.MakeMap:
		mt := in.Type().Underlying().(*types.Map)
		ks, vs := e.reg.sortOf(mt.Key()), e.reg.sortOf(mt.Elem())
		ref := st.newRef()
		kp := e.keyMapP(ks, vs)
		e.heapSet(st, kp, sto(e.heapGet(st, st.heap, kp), ref, fmt.Sprintf("((as const %s) false)", arr(ks, sBool))))
		e.keyMapV(ks, vs)
		return &Val{T: ref, S: sInt, Typ: in.Type()}, nil
	case *ssa.MakeSlice:
		ln := e.operand(fr, st, in.Len)
		cp := e.operand(fr, st, in.Cap)
		lt, ct := e.toBV64(ln, in.Len.Type()), e.toBV64(cp, in.Cap.Type())
		e.safety(fr, st, "makeslice: len out of range", and("(bvsge "+lt+" #x0000000000000000)", "(bvsle "+lt+" "+ct+")", "(bvslt "+ct+" #x4000000000000000)"), in.Pos())
		if isByteSlice(in.Type()) {
			s := st.fresh("zeros", sStr)
			st.assume(eq("(slen "+s+")", lt))
			return &Val{T: "(mkBytes false " + s + ")", S: sBytes, Typ: in.Type()}, nil
		}
		es := e.reg.sortOf(in.Type().Underlying().(*types.Slice).Elem())
		ref := st.newRef()
		k := e.keyElem(es)
		e.heapSet(st, k, sto(e.heapGet(st, st.heap, k), ref, e.reg.zero(arr(sBV64, es))))
		return &Val{T: fmt.Sprintf("(mkSlice %s #x0000000000000000 %s %s)", ref, lt, ct), S: sSlice, Typ: in.Type()}, nil
	case *ssa.Extract:
		t := e.operand(fr, st, in.Tuple)
		if in.Index >= len(t.Tup) {
			return nil, fmt.Errorf("extract #%d from non-tuple %s", in.Index, t)
		}
		return t.Tup[in.Index], nil
	case *ssa.Field:
		x := e.operand(fr, st, in.X)
		ss := e.reg.structSort(in.X.Type())
		return &Val{T: fmt.Sprintf("(%s_f%d %s)", ss, in.Field, x.T), S: e.reg.sortOf(in.Type()), Typ: in.Type()}, nil
	case *ssa.FieldAddr:
		x := e.operand(fr, st, in.X)
		e.safety(fr, st, "nil dereference", not(eq(x.T, "0")), in.Pos())
		st0 := in.X.Type().Underlying().(*types.Pointer).Elem()
		ss := e.reg.structSort(st0)
		ft := st0.Underlying().(*types.Struct).Field(in.Field).Type()
		if x.Addr != nil && x.Addr.Kind == "elem" {
			// field of a struct that is an element of a slice/array
			if _, nested := ft.Underlying().(*types.Struct); nested {
				return nil, fmt.Errorf("address of a nested struct inside a slice element (outside subset)")
			}
			return &Val{T: "1", S: sInt, Typ: in.Type(), Addr: &Addr{Kind: "elemfield", Key: x.Addr.Key, Base: x.Addr.Base, Idx: x.Addr.Idx, Struct: ss, Field: in.Field}}, nil
		}
		r := &Val{T: e.fieldRef(st, x.T, in.Field), S: sInt, Typ: in.Type()}
		st.assume(not(eq(r.T, "0"))) // the address of a field of a non-nil object is not nil
		switch ft.Underlying().(type) {
		case *types.Struct:
			// nested struct: plain pointer to the sub-object
			r.Sub = &SubObj{Base: x.T, Struct: ss, Field: in.Field}
		default:
			// (array-typed fields are held as whole array values; indexing through their address is not supported)
			r.Addr = &Addr{Kind: "field", Key: e.keyField(ss, in.Field), Base: x.T}
		}
		return r, nil
	case *ssa.Index:
		x := e.operand(fr, st, in.X)
		i := e.operand(fr, st, in.Index)
		it := e.toBV64(i, in.Index.Type())
		if x.S == sStr {
			e.safety(fr, st, "index out of range", and("(bvsge "+it+" #x0000000000000000)", "(bvslt "+it+" (slen "+x.T+"))"), in.Pos())
			return &Val{T: "(sat " + x.T + " " + it + ")", S: sBV8, Typ: in.Type()}, nil
		}
		if at, ok := in.X.Type().Underlying().(*types.Array); ok {
			e.safety(fr, st, "index out of range", and("(bvsge "+it+" #x0000000000000000)", "(bvslt "+it+" "+bvLit(uint64(at.Len()), 64)+")"), in.Pos())
			return &Val{T: sel(x.T, it), S: e.reg.sortOf(in.Type()), Typ: in.Type()}, nil
		}
		return nil, fmt.Errorf("unsupported Index on %s", in.X.Type())
	case *ssa.IndexAddr:
		x := e.operand(fr, st, in.X)
		i := e.operand(fr, st, in.Index)
		it := e.toBV64(i, in.Index.Type())
		r := &Val{S: sInt, Typ: in.Type()}
		switch u := in.X.Type().Underlying().(type) {
		case *types.Slice:
			if x.S == sBytes {
				e.safety(fr, st, "index out of range", and("(bvsge "+it+" #x0000000000000000)", "(bvslt "+it+" (slen (b_str "+x.T+")))"), in.Pos())
				r.T = "0"
				r.Addr = &Addr{Kind: "byteat", Base: "(b_str " + x.T + ")", Idx: it}
				return r, nil
			}
			e.safety(fr, st, "index out of range", and("(bvsge "+it+" #x0000000000000000)", "(bvslt "+it+" (s_len "+x.T+"))"), in.Pos())
			es := e.reg.sortOf(u.Elem())
			idx := st.define("idx", sBV64, "(bvadd (s_off "+x.T+") "+it+")")
			r.T = "1"
			r.Addr = &Addr{Kind: "elem", Key: e.keyElem(es), Base: "(s_ref " + x.T + ")", Idx: idx}
			return r, nil
		case *types.Pointer:
			at := u.Elem().Underlying().(*types.Array)
			if x.Addr != nil {
				return nil, fmt.Errorf("indexing through the address of an array-typed field (outside subset)")
			}
			e.safety(fr, st, "nil dereference", not(eq(x.T, "0")), in.Pos())
			e.safety(fr, st, "index out of range", and("(bvsge "+it+" #x0000000000000000)", "(bvslt "+it+" "+bvLit(uint64(at.Len()), 64)+")"), in.Pos())
			es := e.reg.sortOf(at.Elem())
			r.T = "1"
			r.Addr = &Addr{Kind: "elem", Key: e.keyElem(es), Base: x.T, Idx: it}
			return r, nil
		}
		return nil, fmt.Errorf("unsupported IndexAddr on %s", in.X.Type())
	case *ssa.Lookup:
		x := e.operand(fr, st, in.X)
		k := e.operand(fr, st, in.Index)
		if x.S == sStr {
			it := e.toBV64(k, in.Index.Type())
			e.safety(fr, st, "index out of range", and("(bvsge "+it+" #x0000000000000000)", "(bvslt "+it+" (slen "+x.T+"))"), in.Pos())
			return &Val{T: "(sat " + x.T + " " + it + ")", S: sBV8, Typ: in.Type()}, nil
		}
		mt := in.X.Type().Underlying().(*types.Map)
		ks, vs := e.reg.sortOf(mt.Key()), e.reg.sortOf(mt.Elem())
		e.guardCheck(fr, st, x, false, in.Pos())
		pres := sel(sel(e.heapGet(st, st.heap, e.keyMapP(ks, vs)), x.T), k.T)
		// a nil map has no entries
		pres = st.defineAlways("present", sBool, and(not(eq(x.T, "0")), pres))
		raw := sel(sel(e.heapGet(st, st.heap, e.keyMapV(ks, vs)), x.T), k.T)
		val := st.fresh("mapval", vs)
		st.pc = append(st.pc, eq(val, ite(pres, raw, e.reg.zero(vs))))
		st.assume(e.wfVal(st, val, vs))
		v := &Val{T: val, S: vs, Typ: mt.Elem()}
		if in.CommaOk {
			return &Val{S: "TUPLE", Typ: in.Type(), Tup: []*Val{v, {T: pres, S: sBool, Typ: types.Typ[types.Bool]}}}, nil
		}
		return v, nil
	case *ssa.MapUpdate:
		m := e.operand(fr, st, in.Map)
		k := e.operand(fr, st, in.Key)
		v := e.operand(fr, st, in.Value)
		e.safety(fr, st, "assignment to entry in nil map", not(eq(m.T, "0")), in.Pos())
		e.guardCheck(fr, st, m, true, in.Pos())
		mt := in.Map.Type().Underlying().(*types.Map)
		ks, vs := e.reg.sortOf(mt.Key()), e.reg.sortOf(mt.Elem())
		kp, kv := e.keyMapP(ks, vs), e.keyMapV(ks, vs)
		hp, hv := e.heapGet(st, st.heap, kp), e.heapGet(st, st.heap, kv)
		e.heapSet(st, kp, sto(hp, m.T, sto(sel(hp, m.T), k.T, "true")))
		e.heapSet(st, kv, sto(hv, m.T, sto(sel(hv, m.T), k.T, v.T)))
		return nil, nil
	case *ssa.Slice:
		return e.sliceInstr(fr, st, in)
	case *ssa.TypeAssert:
		x := e.operand(fr, st, in.X)
		ts := e.reg.sortOf(in.AssertedType)
		if x.Dyn != nil && x.Box != nil {
			if types.Identical(x.Dyn, in.AssertedType) {
				if in.CommaOk {
					return &Val{S: "TUPLE", Tup: []*Val{x.Box, {T: "true", S: sBool}}}, nil
				}
				return x.Box, nil
			}
		}
		v := &Val{T: st.fresh("asserted", ts), S: ts, Typ: in.AssertedType}
		st.assume(e.wfVal(st, v.T, ts))
		if in.CommaOk {
			ok := st.fresh("assertok", sBool)
			return &Val{S: "TUPLE", Tup: []*Val{v, {T: ok, S: sBool}}}, nil
		}
		if e.cfg.Safety {
			e.errorf("%s: single-value type assertion on a value of unknown dynamic type at %s cannot be shown panic-free", fr.fn, e.posStr(in.Pos()))
		}
		return v, nil
	case *ssa.SliceToArrayPointer:
		x := e.operand(fr, st, in.X)
		at := in.Type().(*types.Pointer).Elem().Underlying().(*types.Array)
		ln := "(s_len " + x.T + ")"
		if x.S == sBytes {
			ln = "(slen (b_str " + x.T + "))"
		}
		e.safety(fr, st, "slice to array conversion: length too short", "(bvsge "+ln+" "+bvLit(uint64(at.Len()), 64)+")", in.Pos())
		r := st.newRef()
		return &Val{T: r, S: sInt, Typ: in.Type()}, nil
	}
	return nil, fmt.Errorf("unsupported instruction %T (%s)", instr, instr)
}

func (e *Engine) toBV64(v *Val, t types.Type) string {
	w := bvWidth(v.S)
	switch {
	case w == 64:
		return v.T
	case w == 0:
		return v.T
	case isSigned(t):
		return fmt.Sprintf("((_ sign_extend %d) %s)", 64-w, v.T)
	default:
		return fmt.Sprintf("((_ zero_extend %d) %s)", 64-w, v.T)
	}
}

func (e *Engine) sliceInstr(fr *Frame, st *State, in *ssa.Slice) (*Val, error) {
	x := e.operand(fr, st, in.X)
	zero := "#x0000000000000000"
	lo := zero
	if in.Low != nil {
		lo = e.toBV64(e.operand(fr, st, in.Low), in.Low.Type())
	}
	res := &Val{Typ: in.Type(), S: e.reg.sortOf(in.Type())}
	switch {
	case x.S == sStr || x.S == sBytes:
		s := x.T
		if x.S == sBytes {
			s = "(b_str " + x.T + ")"
		}
		hi := "(slen " + s + ")"
		if in.High != nil {
			hi = e.toBV64(e.operand(fr, st, in.High), in.High.Type())
		}
		// Note: for []byte the bound is cap, not len; Bytes values do not track capacity, so len is used (conservative).
		e.safety(fr, st, "slice bounds out of range", and("(bvsle "+zero+" "+lo+")", "(bvsle "+lo+" "+hi+")", "(bvsle "+hi+" (slen "+s+"))"), in.Pos())
		sub := st.fresh("sub", sStr)
		st.pc = append(st.pc, eq(sub, "(ssub "+s+" "+lo+" "+hi+")"))
		st.assume(eq("(slen "+sub+")", "(bvsub "+hi+" "+lo+")"))
		st.assume(fmt.Sprintf("(=> (and (= %s %s) (= %s (slen %s))) (= %s %s))", lo, zero, hi, s, sub, s))
		if x.S == sBytes {
			res.T = "(mkBytes (b_nil " + x.T + ") " + sub + ")"
			res.Borrowed = x.Borrowed
			res.Shared = x.Shared
			if x.Shared != "" {
				res.NotShrunk = eq(hi, "(slen "+s+")")
				if x.NotShrunk != "" {
					res.NotShrunk = and(x.NotShrunk, res.NotShrunk)
				}
			}
		} else {
			res.T = sub
		}
		return res, nil
	case x.S == sSlice:
		hi := "(s_len " + x.T + ")"
		if in.High != nil {
			hi = e.toBV64(e.operand(fr, st, in.High), in.High.Type())
		}
		mx := "(s_cap " + x.T + ")"
		if in.Max != nil {
			mx = e.toBV64(e.operand(fr, st, in.Max), in.Max.Type())
		}
		e.safety(fr, st, "slice bounds out of range", and("(bvsle "+zero+" "+lo+")", "(bvsle "+lo+" "+hi+")", "(bvsle "+hi+" "+mx+")", "(bvsle "+mx+" (s_cap "+x.T+"))"), in.Pos())
		res.T = st.define("slc", sSlice, fmt.Sprintf("(mkSlice (s_ref %s) (bvadd (s_off %s) %s) (bvsub %s %s) (bvsub %s %s))", x.T, x.T, lo, hi, lo, mx, lo))
		return res, nil
	case x.S == sInt:
		// pointer to array
		at := in.X.Type().Underlying().(*types.Pointer).Elem().Underlying().(*types.Array)
		n := bvLit(uint64(at.Len()), 64)
		hi := n
		if in.High != nil {
			hi = e.toBV64(e.operand(fr, st, in.High), in.High.Type())
		}
		e.safety(fr, st, "slice bounds out of range", and("(bvsle "+zero+" "+lo+")", "(bvsle "+lo+" "+hi+")", "(bvsle "+hi+" "+n+")"), in.Pos())
		if isByteSlice(in.Type()) {
			s := st.fresh("arrbytes", sStr)
			st.assume(eq("(slen "+s+")", "(bvsub "+hi+" "+lo+")"))
			res.T = "(mkBytes false " + s + ")"
			return res, nil
		}
		if in.Low == nil && in.High == nil {
			res.T = fmt.Sprintf("(mkSlice %s %s %s %s)", x.T, zero, n, n)
			res.CLen, res.HasCLen = int(at.Len()), true
			return res, nil
		}
		res.T = fmt.Sprintf("(mkSlice %s %s (bvsub %s %s) (bvsub %s %s))", x.T, lo, hi, lo, n, lo)
		return res, nil
	}
	return nil, fmt.Errorf("unsupported slice of %s", x.S)
}

// ---------------------------------------------------------------- loops

type loopInfo struct {
	headers []*ssa.BasicBlock // in block-index order
	body    map[*ssa.BasicBlock]map[*ssa.BasicBlock]bool
	ord     map[*ssa.BasicBlock]int // 1-based ordinal
}

func findLoops(fn *ssa.Function) *loopInfo {
	li := &loopInfo{body: map[*ssa.BasicBlock]map[*ssa.BasicBlock]bool{}, ord: map[*ssa.BasicBlock]int{}}
	for _, b := range fn.Blocks {
		for _, s := range b.Succs {
			if s.Dominates(b) { // back edge b -> s
				if li.body[s] == nil {
					li.body[s] = map[*ssa.BasicBlock]bool{s: true}
					li.headers = append(li.headers, s)
				}
				// natural loop: nodes that reach b without passing s
				var stack []*ssa.BasicBlock
				if !li.body[s][b] {
					li.body[s][b] = true
					stack = append(stack, b)
				}
				for len(stack) > 0 {
					n := stack[len(stack)-1]
					stack = stack[:len(stack)-1]
					for _, p := range n.Preds {
						if !li.body[s][p] {
							li.body[s][p] = true
							stack = append(stack, p)
						}
					}
				}
			}
		}
	}
	sort.Slice(li.headers, func(i, j int) bool { return li.headers[i].Index < li.headers[j].Index })
	for i, h := range li.headers {
		li.ord[h] = i + 1
	}
	return li
}

// ---------------------------------------------------------------- driver

func (e *Engine) execBlock(fr *Frame, st *State, b *ssa.BasicBlock, k retK) {
	if e.abort {
		return
	}
	if fr.loops == nil {
		fr.loops = findLoops(fr.fn)
	}
	// phis first (parallel assignment from the incoming edge)
	nphi := 0
	newVals := map[ssa.Value]*Val{}
	for _, in := range b.Instrs {
		phi, ok := in.(*ssa.Phi)
		if !ok {
			break
		}
		nphi++
		idx := -1
		for i, p := range b.Preds {
			if p == fr.prev {
				idx = i
				break
			}
		}
		if idx < 0 {
			e.errorf("%s: phi without matching predecessor in block %d", fr.fn, b.Index)
			return
		}
		newVals[phi] = e.operand(fr, st, phi.Edges[idx])
	}
	for pv, v := range newVals {
		fr.env[pv] = v
	}
	if ord, isHdr := fr.loops.ord[b]; isHdr {
		if fr.active[b] {
			// arrived through a back edge: invariant preserved + variant decreased
			e.checkLoopInvariants(fr, st, b, ord, "invariant-preserved")
			e.checkDecreases(fr, st, b, ord)
			e.loopFrame(fr, st, e.contractFor(fr.fn), ord, nil, false)
			return
		}
		c := e.contractFor(fr.fn)
		if c == nil {
			c = &Contract{Key: fr.fn.String(), Lets: map[string]*Let{}, Opts: map[string]string{}, ModLoop: map[int][]string{}}
		}
		if !hasLoopSpec(c, ord) {
			// No invariant given: the loop is cut with the invariant `true` (everything it may modify is havocked).
			// Sound, but weak: facts that needed an invariant are lost and the obligations depending on them fail.
			e.warnf("%s: loop #%d (block %d) has no invariant: verified with the trivial invariant", fr.fn, ord, b.Index)
		}
		e.checkLoopInvariants(fr, st, b, ord, "invariant-entry")
		// havoc
		for _, in := range b.Instrs[:nphi] {
			phi := in.(*ssa.Phi)
			so := e.reg.sortOf(phi.Type())
			nv := &Val{T: st.fresh("loop_"+phi.Comment, so), S: so, Typ: phi.Type()}
			st.assume(e.wfVal(st, nv.T, so))
			if isRangeIndex(phi) && so == sBV64 {
				// the index the SSA builder makes for `range` over a slice or array starts at -1 and only ever grows by one
				// while index+1 < len: it is never below -1 and stays below len - 1 <= MaxInt - 1, so index+1 cannot wrap (an
				// invariant of the construct, not of the program)
				st.assume("(bvsge " + nv.T + " #xffffffffffffffff)")
				st.assume("(bvslt " + nv.T + " #x7fffffffffffffff)")
			}
			fr.env[phi] = nv
		}
		pre := copyMap(st.heap)
		e.havocLoop(fr, st, b, c, ord)
		e.loopFrame(fr, st, c, ord, pre, true)
		fr.active[b] = true
		e.recordVariant(fr, st, b, ord)
		e.assumeLoopInvariants(fr, st, b, ord)
		st.trail = append(st.trail, fmt.Sprintf("loop#%d", ord))
	}
	e.execFrom(fr, st, b, nphi, k)
}

// isRangeIndex: phi is the hidden index of a `range` loop over a slice/array as go/ssa builds it: every incoming edge is
// either the constant -1 (entry) or phi + 1 (one per back edge).
func isRangeIndex(phi *ssa.Phi) bool {
	if phi.Comment != "rangeindex" {
		return false
	}
	okInit, okStep := false, false
	for _, ed := range phi.Edges {
		switch x := ed.(type) {
		case *ssa.Const:
			if x.Value == nil || x.Value.ExactString() != "-1" {
				return false
			}
			okInit = true
		case *ssa.BinOp:
			c, ok := x.Y.(*ssa.Const)
			if !ok || x.Op != token.ADD || x.X != ssa.Value(phi) || c.Value == nil || c.Value.ExactString() != "1" {
				return false
			}
			okStep = true
		default:
			return false
		}
	}
	return okInit && okStep
}

func hasLoopSpec(c *Contract, ord int) bool {
	for _, i := range c.Invs {
		if i.Loop == ord {
			return true
		}
	}
	return false
}

func (e *Engine) execFrom(fr *Frame, st *State, b *ssa.BasicBlock, idx int, k retK) {
	for i := idx; i < len(b.Instrs); i++ {
		if e.abort {
			return
		}
		st.nsteps++
		instr := b.Instrs[i]
		switch in := instr.(type) {
		case *ssa.If:
			c := e.operand(fr, st, in.Cond)
			tb, fb := b.Succs[0], b.Succs[1]
			ct := c.T
			if st.asserted[ct] {
				ct = "true"
			} else if st.asserted[not(ct)] || (strings.HasPrefix(ct, "(not ") && st.asserted[ct[5:len(ct)-1]]) {
				ct = "false"
			}
			c = &Val{T: ct, S: sBool}
			if c.T != "false" {
				st1, fr1 := st.clone(), fr.clone()
				st1.assume(c.T)
				st1.trail = append(st1.trail, fmt.Sprintf("b%d:T", b.Index))
				fr1.prev = b
				e.execBlock(fr1, st1, tb, k)
			}
			if c.T != "true" {
				st.assume(not(c.T))
				st.trail = append(st.trail, fmt.Sprintf("b%d:F", b.Index))
				fr.prev = b
				e.execBlock(fr, st, fb, k)
			}
			return
		case *ssa.Jump:
			fr.prev = b
			e.execBlock(fr, st, b.Succs[0], k)
			return
		case *ssa.Return:
			var rs []*Val
			for ri, r := range in.Results {
				rv := e.operand(fr, st, r)
				st.markEscaped(rv.T)
				if rv.Borrowed != "" && fr.top {
					// handing a borrowed slice on is fine when this function's own contract says that its result is borrowed
					// (`opt borrowed=<result>`): its callers are then held to the same rule
					passOn := false
					if c := e.contractFor(fr.fn); c != nil && c.Opts["borrowed"] != "" && ri < len(c.Results) && c.Results[ri] == c.Opts["borrowed"] {
						passOn = true
					}
					if !passOn {
						e.borrowCheck(fr, st, rv, "returned", in.Pos())
					}
				}
				rs = append(rs, rv)
			}
			k(st, rs)
			return
		case *ssa.Panic:
			if e.cfg.Safety {
				e.addObligation(st, fr, "safety:explicit panic unreachable", []string{"safety"}, "panic", e.posStr(in.Pos()), "false", nil)
			}
			return
		case *ssa.RunDefers:
			ds := fr.defers
			fr.defers = nil
			e.runDefers(fr, st, ds, len(ds)-1, func(st2 *State, fr2 *Frame) {
				e.execFrom(fr2, st2, b, i+1, k)
			})
			return
		case *ssa.Defer:
			d := &deferred{call: &in.Call, pos: in.Pos()}
			if in.Call.IsInvoke() {
				d.fnv = e.operand(fr, st, in.Call.Value)
			} else if in.Call.StaticCallee() == nil {
				d.fnv = e.operand(fr, st, in.Call.Value)
			} else if mc, ok := in.Call.Value.(*ssa.MakeClosure); ok {
				d.fnv = e.operand(fr, st, mc)
			}
			for _, a := range in.Call.Args {
				d.args = append(d.args, e.operand(fr, st, a))
			}
			fr.defers = append(fr.defers, d)
			continue
		case *ssa.Call:
			var fnv *Val
			if in.Call.IsInvoke() || in.Call.StaticCallee() == nil {
				fnv = e.operand(fr, st, in.Call.Value)
			} else if mc, ok := in.Call.Value.(*ssa.MakeClosure); ok {
				fnv = e.operand(fr, st, mc)
			}
			var args []*Val
			for _, a := range in.Call.Args {
				av := e.operand(fr, st, a)
				st.markEscaped(av.T)
				args = append(args, av)
			}
			if fnv != nil {
				st.markEscaped(fnv.T)
			}
			first := true
			e.doCall(fr, st, &in.Call, fnv, args, in.Pos(), func(st2 *State, res *Val) {
				fr2 := fr
				if !first {
					fr2 = fr.clone()
				} else {
					fr2 = fr.clone()
				}
				first = false
				if res != nil {
					fr2.env[in] = res
				}
				e.execFrom(fr2, st2, b, i+1, k)
			})
			return
		case *ssa.Go:
			// The spawned call is treated as not having run when the enclosing function continues/returns:
			// sound for "must have happened before return" obligations; its later effects are not modelled.
			e.warnf("%s: go statement at %s: spawned call treated as not yet executed (effects unmodelled)", fr.fn, e.posStr(in.Pos()))
			continue
		case *ssa.Select, *ssa.Send, *ssa.Range, *ssa.Next:
			if r, ok := instr.(*ssa.Range); ok {
				if v, err := e.rangeInstr(fr, st, r); err == nil {
					fr.env[r] = v
					continue
				}
			}
			if n, ok := instr.(*ssa.Next); ok {
				if v, err := e.nextInstr(fr, st, n); err == nil {
					fr.env[n] = v
					continue
				}
			}
			e.degrade(fr, st, instr, fmt.Sprintf("instruction %T is outside the verifiable subset", instr))
			continue
		default:
			v, err := e.simpleInstr(fr, st, instr)
			if err != nil {
				e.degrade(fr, st, instr, err.Error())
				continue
			}
			if val, ok := instr.(ssa.Value); ok && v != nil {
				fr.env[val] = v
			}
		}
	}
}

// degrade: an instruction the generator cannot model.  Instead of giving up on the function (which would leave every
// obligation of the property undecided), the execution continues on a sound over-approximation: the instruction's
// result is an arbitrary value of its type and the whole heap (this path's own allocations included) may have changed.  Obligations that
// still discharge are proved; those that do not are reported with this note attached (recorded as a warning and in
// the report's `degraded` list).  Nothing on the unchanged tree takes this route.
func (e *Engine) degrade(fr *Frame, st *State, instr ssa.Instruction, why string) {
	msg := fmt.Sprintf("%s: %s at %s: continuing on an over-approximation (result arbitrary, heap havocked)", fr.fn, why, e.posStr(instr.Pos()))
	e.warnf("%s", msg)
	e.degraded = append(e.degraded, msg)
	for _, a := range st.allocs {
		st.escaped[a] = true // the instruction may have written through any of its operands
	}
	e.havocAllHeap(st)
	if val, ok := instr.(ssa.Value); ok {
		if tup, ok := val.Type().(*types.Tuple); ok {
			res := &Val{S: "TUPLE", Typ: val.Type()}
			for i := 0; i < tup.Len(); i++ {
				so := e.reg.sortOf(tup.At(i).Type())
				res.Tup = append(res.Tup, &Val{T: st.fresh("degraded", so), S: so, Typ: tup.At(i).Type()})
			}
			fr.env[val] = res
			return
		}
		so := e.reg.sortOf(val.Type())
		fr.env[val] = &Val{T: st.fresh("degraded", so), S: so, Typ: val.Type()}
	}
}

func (e *Engine) runDefers(fr *Frame, st *State, ds []*deferred, i int, k func(*State, *Frame)) {
	if i < 0 {
		k(st, fr)
		return
	}
	d := ds[i]
	e.doCall(fr, st, d.call, d.fnv, d.args, d.pos, func(st2 *State, _ *Val) {
		e.runDefers(fr.clone(), st2, ds, i-1, k)
	})
}
