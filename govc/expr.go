package main

// Contract expression language: lexer, AST, Pratt parser.
//
//   e ::= e <==> e | e ==> e | e ? e : e | e || e | e && e | !e
//       | e (== != < <= > >=) e | e in e | e (+ - * / % ++) e | -e
//       | forall x Sort, y Sort :: e | exists ... :: e
//       | e.f | e[i] | e[i := v] | f(e, ...) | old(e) | ident | pkg.Ident | 123 | "str" | nil | true | false
//
// `++` is string/byte concatenation (scat).

import (
	"fmt"
	"strings"
	"unicode"
)

type tokKind int

const (
	tEOF tokKind = iota
	tIdent
	tNum
	tStr
	tOp
)

type tok struct {
	k   tokKind
	s   string
	pos int
}

func lexExpr(src string) ([]tok, error) {
	var toks []tok
	i := 0
	ops := []string{"<==>", "==>", ":=", "::", "&&", "||", "==", "!=", "<=", ">=", "++", "<<", ">>", "(", ")", "[", "]", ",", ".", "?", ":", "!", "<", ">", "+", "-", "*", "/", "%", "$", "&", "|", "^"}
	for i < len(src) {
		c := src[i]
		if c == ' ' || c == '\t' || c == '\n' || c == '\r' {
			i++
			continue
		}
		if unicode.IsLetter(rune(c)) || c == '_' || c == '$' || c == '#' {
			j := i + 1
			for j < len(src) && (unicode.IsLetter(rune(src[j])) || unicode.IsDigit(rune(src[j])) || src[j] == '_' || src[j] == '$' || src[j] == '#') {
				j++
			}
			toks = append(toks, tok{tIdent, src[i:j], i})
			i = j
			continue
		}
		if unicode.IsDigit(rune(c)) {
			j := i + 1
			for j < len(src) && (unicode.IsDigit(rune(src[j])) || src[j] == 'x' || (src[j] >= 'a' && src[j] <= 'f') || (src[j] >= 'A' && src[j] <= 'F')) {
				j++
			}
			toks = append(toks, tok{tNum, src[i:j], i})
			i = j
			continue
		}
		if c == '"' {
			j := i + 1
			var sb strings.Builder
			for j < len(src) && src[j] != '"' {
				if src[j] == '\\' && j+1 < len(src) {
					switch src[j+1] {
					case 'n':
						sb.WriteByte('\n')
					case 't':
						sb.WriteByte('\t')
					case '\\':
						sb.WriteByte('\\')
					case '"':
						sb.WriteByte('"')
					default:
						return nil, fmt.Errorf("bad escape at %d in %q", j, src)
					}
					j += 2
					continue
				}
				sb.WriteByte(src[j])
				j++
			}
			if j >= len(src) {
				return nil, fmt.Errorf("unterminated string in %q", src)
			}
			toks = append(toks, tok{tStr, sb.String(), i})
			i = j + 1
			continue
		}
		matched := false
		for _, op := range ops {
			if strings.HasPrefix(src[i:], op) {
				toks = append(toks, tok{tOp, op, i})
				i += len(op)
				matched = true
				break
			}
		}
		if !matched {
			return nil, fmt.Errorf("unexpected character %q at %d in %q", c, i, src)
		}
	}
	toks = append(toks, tok{tEOF, "", len(src)})
	return toks, nil
}

// Expr is a contract expression node.
type Expr struct {
	Op   string  // "ident","num","str","call","field","index","update","old","forall","exists","ite", or an operator
	S    string  // identifier / literal / field name
	Args []*Expr // operands
	// binders for quantifiers: names and sort expressions
	BNames []string
	BSorts []string
}

func (e *Expr) String() string {
	if e == nil {
		return "<nil>"
	}
	switch e.Op {
	case "ident", "num":
		return e.S
	case "str":
		return fmt.Sprintf("%q", e.S)
	case "field":
		return e.Args[0].String() + "." + e.S
	case "index":
		return e.Args[0].String() + "[" + e.Args[1].String() + "]"
	case "update":
		return e.Args[0].String() + "[" + e.Args[1].String() + " := " + e.Args[2].String() + "]"
	case "call":
		var a []string
		for _, x := range e.Args {
			a = append(a, x.String())
		}
		return e.S + "(" + strings.Join(a, ", ") + ")"
	case "forall", "exists":
		var b []string
		for i := range e.BNames {
			b = append(b, e.BNames[i]+" "+e.BSorts[i])
		}
		return e.Op + " " + strings.Join(b, ", ") + " :: " + e.Args[0].String()
	case "ite":
		return "(" + e.Args[0].String() + " ? " + e.Args[1].String() + " : " + e.Args[2].String() + ")"
	case "!", "neg":
		return "!" + e.Args[0].String()
	}
	if len(e.Args) == 2 {
		return "(" + e.Args[0].String() + " " + e.Op + " " + e.Args[1].String() + ")"
	}
	return e.Op
}

type exprParser struct {
	toks []tok
	p    int
	src  string
}

func parseExpr(src string) (*Expr, error) {
	toks, err := lexExpr(src)
	if err != nil {
		return nil, err
	}
	ps := &exprParser{toks: toks, src: src}
	e, err := ps.parse(0)
	if err != nil {
		return nil, err
	}
	if ps.peek().k != tEOF {
		return nil, fmt.Errorf("trailing tokens at %d (%q) in %q", ps.peek().pos, ps.peek().s, src)
	}
	return e, nil
}

func (ps *exprParser) peek() tok { return ps.toks[ps.p] }
func (ps *exprParser) next() tok { t := ps.toks[ps.p]; ps.p++; return t }
func (ps *exprParser) isOp(s string) bool {
	t := ps.peek()
	return t.k == tOp && t.s == s
}
func (ps *exprParser) expectOp(s string) error {
	if !ps.isOp(s) {
		return fmt.Errorf("expected %q at %d, got %q in %q", s, ps.peek().pos, ps.peek().s, ps.src)
	}
	ps.next()
	return nil
}

// binding powers
var binPrec = map[string]int{
	"<==>": 1, "==>": 2, "?": 3, "||": 4, "&&": 5,
	"==": 6, "!=": 6, "<": 6, "<=": 6, ">": 6, ">=": 6, "in": 6,
	"+": 7, "-": 7, "++": 7, "|": 7, "^": 7,
	"*": 8, "/": 8, "%": 8, "<<": 8, ">>": 8, "&": 8,
}

func (ps *exprParser) parse(minPrec int) (*Expr, error) {
	lhs, err := ps.parseUnary()
	if err != nil {
		return nil, err
	}
	for {
		t := ps.peek()
		var op string
		if t.k == tOp {
			op = t.s
		} else if t.k == tIdent && t.s == "in" {
			op = "in"
		} else {
			break
		}
		prec, ok := binPrec[op]
		if !ok || prec < minPrec {
			break
		}
		ps.next()
		if op == "?" {
			a, err := ps.parse(0)
			if err != nil {
				return nil, err
			}
			if err := ps.expectOp(":"); err != nil {
				return nil, err
			}
			b, err := ps.parse(prec)
			if err != nil {
				return nil, err
			}
			lhs = &Expr{Op: "ite", Args: []*Expr{lhs, a, b}}
			continue
		}
		nextMin := prec + 1
		if op == "==>" { // right associative
			nextMin = prec
		}
		rhs, err := ps.parse(nextMin)
		if err != nil {
			return nil, err
		}
		lhs = &Expr{Op: op, Args: []*Expr{lhs, rhs}}
	}
	return lhs, nil
}

func (ps *exprParser) parseUnary() (*Expr, error) {
	t := ps.peek()
	if t.k == tOp && t.s == "!" {
		ps.next()
		e, err := ps.parseUnary()
		if err != nil {
			return nil, err
		}
		return &Expr{Op: "!", Args: []*Expr{e}}, nil
	}
	if t.k == tOp && t.s == "-" {
		ps.next()
		e, err := ps.parseUnary()
		if err != nil {
			return nil, err
		}
		return &Expr{Op: "neg", Args: []*Expr{e}}, nil
	}
	if t.k == tIdent && (t.s == "forall" || t.s == "exists") {
		ps.next()
		q := &Expr{Op: t.s}
		for {
			n := ps.next()
			if n.k != tIdent {
				return nil, fmt.Errorf("expected binder name at %d in %q", n.pos, ps.src)
			}
			so, err := ps.parseSortText()
			if err != nil {
				return nil, err
			}
			q.BNames = append(q.BNames, n.s)
			q.BSorts = append(q.BSorts, so)
			if ps.isOp(",") {
				ps.next()
				continue
			}
			break
		}
		if err := ps.expectOp("::"); err != nil {
			return nil, err
		}
		body, err := ps.parse(0)
		if err != nil {
			return nil, err
		}
		q.Args = []*Expr{body}
		return q, nil
	}
	return ps.parsePostfix()
}

// parseSortText reads a sort: Ident or Map[K]V (textual, resolved later).
func (ps *exprParser) parseSortText() (string, error) {
	n := ps.next()
	if n.k != tIdent {
		return "", fmt.Errorf("expected sort at %d in %q", n.pos, ps.src)
	}
	if n.s == "Map" {
		if err := ps.expectOp("["); err != nil {
			return "", err
		}
		k, err := ps.parseSortText()
		if err != nil {
			return "", err
		}
		if err := ps.expectOp("]"); err != nil {
			return "", err
		}
		v, err := ps.parseSortText()
		if err != nil {
			return "", err
		}
		return "Map[" + k + "]" + v, nil
	}
	return n.s, nil
}

func (ps *exprParser) parsePostfix() (*Expr, error) {
	t := ps.next()
	var e *Expr
	switch {
	case t.k == tNum:
		e = &Expr{Op: "num", S: t.s}
	case t.k == tStr:
		e = &Expr{Op: "str", S: t.s}
	case t.k == tIdent:
		e = &Expr{Op: "ident", S: t.s}
	case t.k == tOp && t.s == "(":
		in, err := ps.parse(0)
		if err != nil {
			return nil, err
		}
		if err := ps.expectOp(")"); err != nil {
			return nil, err
		}
		e = in
	default:
		return nil, fmt.Errorf("unexpected token %q at %d in %q", t.s, t.pos, ps.src)
	}
	for {
		if ps.isOp(".") {
			ps.next()
			n := ps.next()
			if n.k != tIdent {
				return nil, fmt.Errorf("expected field name at %d in %q", n.pos, ps.src)
			}
			e = &Expr{Op: "field", S: n.s, Args: []*Expr{e}}
			continue
		}
		if ps.isOp("[") {
			ps.next()
			idx, err := ps.parse(0)
			if err != nil {
				return nil, err
			}
			if ps.isOp(":=") {
				ps.next()
				v, err := ps.parse(0)
				if err != nil {
					return nil, err
				}
				if err := ps.expectOp("]"); err != nil {
					return nil, err
				}
				e = &Expr{Op: "update", Args: []*Expr{e, idx, v}}
				continue
			}
			if err := ps.expectOp("]"); err != nil {
				return nil, err
			}
			e = &Expr{Op: "index", Args: []*Expr{e, idx}}
			continue
		}
		if ps.isOp("(") {
			// call: callee must be ident or pkg.ident
			name := ""
			switch e.Op {
			case "ident":
				name = e.S
			case "field":
				if e.Args[0].Op == "ident" {
					name = e.Args[0].S + "." + e.S
				}
			}
			if name == "" {
				return nil, fmt.Errorf("call of non-name at %d in %q", ps.peek().pos, ps.src)
			}
			ps.next()
			var args []*Expr
			if !ps.isOp(")") {
				for {
					a, err := ps.parse(0)
					if err != nil {
						return nil, err
					}
					args = append(args, a)
					if ps.isOp(",") {
						ps.next()
						continue
					}
					break
				}
			}
			if err := ps.expectOp(")"); err != nil {
				return nil, err
			}
			if name == "old" && len(args) == 1 {
				e = &Expr{Op: "old", Args: args}
			} else {
				e = &Expr{Op: "call", S: name, Args: args}
			}
			continue
		}
		break
	}
	return e, nil
}
