package main

// Parsing of contract files: /verif/contracts/*.spec and the comment-only
// zz_contracts_verif.go files in /repo (lines starting with "//@").

import (
	"fmt"
	"os"
	"path/filepath"
	"regexp"
	"sort"
	"strconv"
	"strings"
)

type Clause struct {
	Kind   string // requires, ensures, invariant, decreases, assert
	Tags   []string
	Loop   int    // loop ordinal for invariant/decreases
	Callee string // atcall: suffix of the callee's name
	E      *Expr
	Src    string
	File   string
	Line   int
}

type Let struct {
	Name string
	E    *Expr
}

type Contract struct {
	Key      string // normalised function key (ssa name)
	Params   []string
	Results  []string
	Assumed  bool // contract of a dependency: assumed, not verified
	Verify   bool // generate obligations for the body
	Requires []*Clause
	Ensures  []*Clause
	Invs     []*Clause
	Decs     []*Clause
	AtCalls  []*Clause
	Prefers  []*Clause
	Crash    []*Clause
	Hints    []*Clause // instances of manual axioms: `hint#N axiomName(args...)`
	Lets     map[string]*Let
	LetOrder []string
	Modifies []string
	GhostMod []string // ghost call-record variables: havocked at call sites, updated only by [ghost] ensures
	ModLoop  map[int][]string
	Refines  string
	Opts     map[string]string
	File     string
	Line     int
}

type SpecFunc struct {
	Name   string
	Params []string
	PSorts []string
	Ret    string
	Def    *Expr // nil = uninterpreted
}

type GhostVar struct {
	Name string
	Sort string
}

type Axiom struct {
	Name     string
	E        *Expr
	Src      string
	Manual   bool // never added as a quantified formula: instantiated only through `hint` clauses
	Computed bool // a ground fact about string literals, CHECKED by evaluating it (not an assumption)
}

type Specs struct {
	Contracts  map[string]*Contract
	Funcs      map[string]*SpecFunc
	FuncOrder  []string
	Ghosts     map[string]*GhostVar
	GhostOrd   []string
	Axioms     []*Axiom
	Consts     map[string]*SpecConst
	Sentinels  []string // full names of package-level error vars treated as distinct constants
	NoEffect   []string // patterns of functions whose calls have no effect (results havocked)
	Lemmas     []*Lemma // pure SMT lemmas over the vocabulary
	Callers    []*CallersRule
	Guards     []*GuardRule
	ZeroGhosts []ZeroGhost
	HasEffect  []string
	Imports    map[string]string // alias -> path (global across spec files)
}

// ZeroGhost: a freshly allocated value of Type has ghost map Ghost[ref] == Value (an expression)
type ZeroGhost struct {
	Type  string
	Ghost string
	Value *Expr
}

type GuardRule struct {
	Tags   []string
	Struct string // qualified struct type name
	Field  string
	Mutex  string
	Snap   []string // ghost variables receiving (presence, values) of the guarded map at each acquisition
	Where  string
}

type CallersRule struct {
	Tags    []string
	Callee  string
	Allowed []string
	Where   string
}

type SpecConst struct {
	Name string
	Sort string
	Val  string
}

type Lemma struct {
	Name string
	Tags []string
	E    *Expr
	Src  string
	File string
	Line int
}

func newSpecs() *Specs {
	return &Specs{
		Contracts: map[string]*Contract{},
		Funcs:     map[string]*SpecFunc{},
		Ghosts:    map[string]*GhostVar{},
		Consts:    map[string]*SpecConst{},
		Imports:   map[string]string{},
	}
}

var clauseKW = map[string]bool{
	"requires": true, "ensures": true, "modifies": true, "let": true, "invariant": true,
	"decreases": true, "prefer": true, "crash_invariant": true, "hint": true, "atcall": true, "assumed": true, "returns": true, "refines": true, "verify": true, "ghostmodifies": true, "opt": true, "loopmodifies": true,
}

type rawLine struct {
	text string
	file string
	line int
}

// loadSpecFile reads a .spec file.
func (sp *Specs) loadSpecFile(path string) error {
	data, err := os.ReadFile(path)
	if err != nil {
		return err
	}
	var lines []rawLine
	for i, l := range strings.Split(string(data), "\n") {
		lines = append(lines, rawLine{l, path, i + 1})
	}
	return sp.parseLines(lines, "")
}

// loadContractGoFile reads a comment-only Go file with //@ lines; pkgPath
// qualifies unqualified function names.
func (sp *Specs) loadContractGoFile(path, pkgPath string) error {
	data, err := os.ReadFile(path)
	if err != nil {
		return err
	}
	var lines []rawLine
	for i, l := range strings.Split(string(data), "\n") {
		if strings.HasPrefix(l, "//@") {
			t := strings.TrimPrefix(l, "//@")
			if strings.HasPrefix(t, " ") {
				t = t[1:]
			}
			lines = append(lines, rawLine{t, path, i + 1})
		}
	}
	return sp.parseLines(lines, pkgPath)
}

var tagRe = regexp.MustCompile(`^(\w+)(?:#(\d+))?(?:\[([^\]]*)\])?\s*(.*)$`)

func stripComment(s string) string {
	// '#' starts a comment outside string literals when preceded by whitespace or at line start
	inStr := false
	for i := 0; i < len(s); i++ {
		if s[i] == '"' && (i == 0 || s[i-1] != '\\') {
			inStr = !inStr
		}
		if !inStr && s[i] == '#' && (i == 0 || s[i-1] == ' ' || s[i-1] == '\t') && (i+1 == len(s) || s[i+1] == ' ' || s[i+1] == '\t') {
			// `#1` loop ordinal suffixes are attached to a keyword (no space before), so they are safe
			return strings.TrimRight(s[:i], " \t")
		}
		if !inStr && i+1 < len(s) && s[i] == '/' && s[i+1] == '/' {
			return strings.TrimRight(s[:i], " \t")
		}
	}
	return s
}

func (sp *Specs) parseLines(lines []rawLine, pkgPath string) error {
	// group into blocks: a block starts at a non-indented, non-empty line
	type block struct {
		head  rawLine
		items []rawLine // clause lines (continuations merged)
	}
	var blocks []*block
	var cur *block
	for _, rl := range lines {
		t := stripComment(rl.text)
		if strings.TrimSpace(t) == "" {
			continue
		}
		indented := t[0] == ' ' || t[0] == '\t'
		tt := strings.TrimSpace(t)
		if !indented {
			cur = &block{head: rawLine{tt, rl.file, rl.line}}
			blocks = append(blocks, cur)
			continue
		}
		if cur == nil {
			return fmt.Errorf("%s:%d: indented line outside a block", rl.file, rl.line)
		}
		first := tt
		if i := strings.IndexAny(tt, " \t[#"); i >= 0 {
			first = tt[:i]
		}
		if clauseKW[first] {
			cur.items = append(cur.items, rawLine{tt, rl.file, rl.line})
		} else {
			if len(cur.items) == 0 {
				// continuation of head
				cur.head.text += " " + tt
			} else {
				cur.items[len(cur.items)-1].text += " " + tt
			}
		}
	}
	for _, b := range blocks {
		h := b.head.text
		kw := h
		rest := ""
		if i := strings.IndexAny(h, " \t["); i >= 0 && h[i] == '[' {
			kw = h[:i]
			rest = strings.TrimSpace(h[i:])
		} else if i := strings.IndexAny(h, " \t"); i >= 0 {
			kw = h[:i]
			rest = strings.TrimSpace(h[i:])
		}
		where := fmt.Sprintf("%s:%d", b.head.file, b.head.line)
		switch kw {
		case "package":
			// ignore (Go package clause never has //@, but tolerate)
		case "import":
			f := strings.Fields(rest)
			if len(f) != 2 {
				return fmt.Errorf("%s: import alias \"path\"", where)
			}
			p, err := strconv.Unquote(f[1])
			if err != nil {
				return fmt.Errorf("%s: %v", where, err)
			}
			sp.Imports[f[0]] = p
		case "ghost":
			f := strings.Fields(rest)
			if len(f) != 2 {
				return fmt.Errorf("%s: ghost name Sort", where)
			}
			if _, dup := sp.Ghosts[f[0]]; !dup {
				sp.GhostOrd = append(sp.GhostOrd, f[0])
			}
			sp.Ghosts[f[0]] = &GhostVar{f[0], f[1]}
		case "const":
			// const Name Sort = smtliteral
			f := strings.Fields(rest)
			eqi := strings.Index(rest, "=")
			if len(f) < 4 || f[2] != "=" || eqi < 0 {
				return fmt.Errorf("%s: const Name Sort = value", where)
			}
			sp.Consts[f[0]] = &SpecConst{f[0], f[1], strings.TrimSpace(rest[eqi+1:])}
		case "sentinel":
			sp.Sentinels = append(sp.Sentinels, sp.qualify(rest, pkgPath))
		case "noeffect":
			sp.NoEffect = append(sp.NoEffect, sp.qualifyPattern(rest))
		case "haseffect":
			// haseffect name: a member of a `noeffect pkg.*` family that does have an effect (it writes through an argument,
			// runs a caller's closure, panics on some input): it is NOT covered by the wildcard
			sp.HasEffect = append(sp.HasEffect, sp.qualifyPattern(rest))
		case "axiom", "lemma":
			// axiom name: expr   |  lemma[tags] name: expr
			m := regexp.MustCompile(`^(?:\[([^\]]*)\]\s*)?(\w+)\s*:\s*(.*)$`).FindStringSubmatch(strings.TrimSpace(h[len(kw):]))
			if m == nil {
				return fmt.Errorf("%s: %s name: expr", where, kw)
			}
			src := m[3]
			for _, it := range b.items {
				src += " " + it.text
			}
			e, err := parseExpr(src)
			if err != nil {
				return fmt.Errorf("%s: %v", where, err)
			}
			if kw == "axiom" {
				manual, computed := false, false
				for _, t := range strings.Split(m[1], ",") {
					if strings.TrimSpace(t) == "manual" {
						manual = true
					}
					if strings.TrimSpace(t) == "computed" {
						computed = true
					}
				}
				sp.Axioms = append(sp.Axioms, &Axiom{m[2], e, src, manual, computed})
			} else {
				var tags []string
				for _, t := range strings.Split(m[1], ",") {
					if t = strings.TrimSpace(t); t != "" {
						tags = append(tags, t)
					}
				}
				sp.Lemmas = append(sp.Lemmas, &Lemma{m[2], tags, e, src, b.head.file, b.head.line})
			}
		case "zeroghost":
			// zeroghost pkg.Type ghostMap <expr>
			f := strings.Fields(rest)
			if len(f) < 3 {
				return fmt.Errorf("%s: zeroghost pkg.Type ghostMap expr", where)
			}
			ve, err := parseExpr(strings.TrimSpace(strings.SplitN(rest, f[1], 2)[1]))
			if err != nil {
				return fmt.Errorf("%s: %v", where, err)
			}
			sp.ZeroGhosts = append(sp.ZeroGhosts, ZeroGhost{Type: sp.qualify(f[0], pkgPath), Ghost: f[1], Value: ve})
		case "guarded":
			// guarded[tags] pkg.Type.field by mutexField
			m := regexp.MustCompile(`^guarded(?:\[([^\]]*)\])?\s+(\S+)\.(\w+)\s+by\s+(\w+)(?:\s+snapshot\s+(\w+)\s*,\s*(\w+))?$`).FindStringSubmatch(h)
			if m == nil {
				return fmt.Errorf("%s: guarded[tags] pkg.Type.field by mutexField [snapshot ghostHas, ghostVal]", where)
			}
			g := &GuardRule{Struct: sp.qualify(m[2], pkgPath), Field: m[3], Mutex: m[4], Where: where}
			if m[5] != "" {
				g.Snap = []string{m[5], m[6]}
			}
			for _, t := range strings.Split(m[1], ",") {
				if t = strings.TrimSpace(t); t != "" {
					g.Tags = append(g.Tags, t)
				}
			}
			sp.Guards = append(sp.Guards, g)
		case "callers":
			// callers[tags] <callee> only <fn>, <fn> ...
			m := regexp.MustCompile(`^callers(?:\[([^\]]*)\])?\s+(.*?)\s+only\s+(.*)$`).FindStringSubmatch(h)
			if m == nil {
				return fmt.Errorf("%s: callers[tags] <callee> only <fn>, ...", where)
			}
			r := &CallersRule{Callee: sp.qualify(m[2], pkgPath), Where: where}
			for _, t := range strings.Split(m[1], ",") {
				if t = strings.TrimSpace(t); t != "" {
					r.Tags = append(r.Tags, t)
				}
			}
			for _, a := range splitTop(m[3], ',') {
				if a != "" && a != "nobody" {
					r.Allowed = append(r.Allowed, sp.qualify(a, pkgPath))
				}
			}
			sp.Callers = append(sp.Callers, r)
		case "spec":
			if err := sp.parseSpecFunc(rest, where); err != nil {
				return err
			}
		case "func":
			c, err := sp.parseFuncHead(rest, pkgPath, where)
			if err != nil {
				return err
			}
			c.File = b.head.file
			c.Line = b.head.line
			for _, it := range b.items {
				if err := sp.parseClause(c, it); err != nil {
					return err
				}
			}
			if m := c.Opts["mode"]; m != "" {
				c.Key = c.Key + "@" + m
			}
			if old, dup := sp.Contracts[c.Key]; dup {
				return fmt.Errorf("%s: duplicate contract for %s (first at %s:%d)", where, c.Key, old.File, old.Line)
			}
			sp.Contracts[c.Key] = c
		default:
			return fmt.Errorf("%s: unknown block keyword %q", where, kw)
		}
	}
	return nil
}

func (sp *Specs) parseSpecFunc(rest, where string) error {
	// spec func name(a Sort, b Sort) Sort [:= expr]
	if !strings.HasPrefix(rest, "func ") {
		return fmt.Errorf("%s: expected `spec func`", where)
	}
	rest = strings.TrimSpace(rest[5:])
	def := ""
	if i := strings.Index(rest, ":="); i >= 0 {
		def = strings.TrimSpace(rest[i+2:])
		rest = strings.TrimSpace(rest[:i])
	}
	op := strings.Index(rest, "(")
	cl := strings.LastIndex(rest, ")")
	if op < 0 || cl < op {
		return fmt.Errorf("%s: bad spec func header", where)
	}
	f := &SpecFunc{Name: strings.TrimSpace(rest[:op]), Ret: strings.TrimSpace(rest[cl+1:])}
	ps := strings.TrimSpace(rest[op+1 : cl])
	if ps != "" {
		for _, p := range splitTop(ps, ',') {
			fs := strings.Fields(p)
			if len(fs) != 2 {
				return fmt.Errorf("%s: bad param %q", where, p)
			}
			f.Params = append(f.Params, fs[0])
			f.PSorts = append(f.PSorts, fs[1])
		}
	}
	if def != "" {
		e, err := parseExpr(def)
		if err != nil {
			return fmt.Errorf("%s: %v", where, err)
		}
		f.Def = e
	}
	if _, dup := sp.Funcs[f.Name]; dup {
		return fmt.Errorf("%s: duplicate spec func %s", where, f.Name)
	}
	sp.Funcs[f.Name] = f
	sp.FuncOrder = append(sp.FuncOrder, f.Name)
	return nil
}

func splitTop(s string, sep byte) []string {
	var out []string
	depth := 0
	last := 0
	for i := 0; i < len(s); i++ {
		switch s[i] {
		case '(', '[':
			depth++
		case ')', ']':
			depth--
		default:
			if s[i] == sep && depth == 0 {
				out = append(out, strings.TrimSpace(s[last:i]))
				last = i + 1
			}
		}
	}
	out = append(out, strings.TrimSpace(s[last:]))
	return out
}

// qualify turns `alias.Name`, `(*alias.T).M`, `(alias.T).M`, `(*T).M`, `Name`
// into the ssa full name using imports / pkgPath.
func (sp *Specs) qualify(name, pkgPath string) string {
	name = strings.TrimSpace(name)
	if strings.HasPrefix(name, "field:") {
		return "field:" + sp.qualify(name[6:], pkgPath)
	}
	q := func(id string) string { // id = alias.Name or Name or full/path.Name
		if strings.Contains(id, "/") {
			return id
		}
		if i := strings.Index(id, "."); i >= 0 {
			al := id[:i]
			if p, ok := sp.Imports[al]; ok {
				return p + id[i:]
			}
			return id // std package like fmt.Errorf
		}
		if pkgPath != "" {
			return pkgPath + "." + id
		}
		return id
	}
	if strings.HasPrefix(name, "(") {
		cl := strings.Index(name, ")")
		if cl < 0 {
			return name
		}
		inner := name[1:cl]
		restm := name[cl+1:]
		star := ""
		if strings.HasPrefix(inner, "*") {
			star = "*"
			inner = inner[1:]
		}
		return "(" + star + q(inner) + ")" + restm
	}
	// closures: f$1 keeps suffix
	return q(name)
}

func (sp *Specs) qualifyPattern(p string) string {
	p = strings.TrimSpace(p)
	if strings.Contains(p, "/") {
		return p
	}
	if i := strings.Index(p, "."); i >= 0 {
		if full, ok := sp.Imports[p[:i]]; ok {
			return full + p[i:]
		}
	}
	return p
}

func (sp *Specs) parseFuncHead(rest, pkgPath, where string) (*Contract, error) {
	// name [ (params) [ (results) ] ]
	c := &Contract{Lets: map[string]*Let{}, Opts: map[string]string{}, ModLoop: map[int][]string{}}
	rest = strings.TrimSpace(rest)
	// the name may itself start with a parenthesised receiver
	i := 0
	if strings.HasPrefix(rest, "(") {
		i = strings.Index(rest, ")") + 1
	}
	j := i
	for j < len(rest) && rest[j] != '(' && rest[j] != ' ' {
		j++
	}
	name := rest[:j]
	tail := strings.TrimSpace(rest[j:])
	c.Key = sp.qualify(name, pkgPath)
	if strings.HasPrefix(tail, "(") {
		cl := matchParen(tail, 0)
		if cl < 0 {
			return nil, fmt.Errorf("%s: unbalanced parens", where)
		}
		ps := strings.TrimSpace(tail[1:cl])
		if ps != "" {
			for _, p := range splitTop(ps, ',') {
				c.Params = append(c.Params, strings.Fields(p)[0])
			}
		}
		tail = strings.TrimSpace(tail[cl+1:])
		if strings.HasPrefix(tail, "(") {
			cl := matchParen(tail, 0)
			if cl < 0 {
				return nil, fmt.Errorf("%s: unbalanced parens", where)
			}
			rs := strings.TrimSpace(tail[1:cl])
			if rs != "" {
				for _, p := range splitTop(rs, ',') {
					c.Results = append(c.Results, strings.Fields(p)[0])
				}
			}
		} else if tail != "" {
			c.Results = []string{strings.Fields(tail)[0]}
		}
	}
	return c, nil
}

func matchParen(s string, open int) int {
	d := 0
	for i := open; i < len(s); i++ {
		if s[i] == '(' {
			d++
		} else if s[i] == ')' {
			d--
			if d == 0 {
				return i
			}
		}
	}
	return -1
}

func (sp *Specs) parseClause(c *Contract, it rawLine) error {
	where := fmt.Sprintf("%s:%d", it.file, it.line)
	m := tagRe.FindStringSubmatch(it.text)
	if m == nil {
		return fmt.Errorf("%s: cannot parse clause %q", where, it.text)
	}
	kw, loopS, tagS, body := m[1], m[2], m[3], strings.TrimSpace(m[4])
	loop := 0
	if loopS != "" {
		loop, _ = strconv.Atoi(loopS)
	}
	var tags []string
	for _, t := range strings.Split(tagS, ",") {
		if t = strings.TrimSpace(t); t != "" {
			tags = append(tags, t)
		}
	}
	switch kw {
	case "assumed":
		c.Assumed = true
	case "verify":
		c.Verify = true
	case "opt":
		f := strings.SplitN(body, "=", 2)
		if len(f) == 2 {
			c.Opts[strings.TrimSpace(f[0])] = strings.TrimSpace(f[1])
		} else {
			c.Opts[strings.TrimSpace(body)] = "true"
		}
	case "refines":
		c.Refines = sp.qualify(body, "")
	case "returns":
		body = strings.Trim(body, "()")
		c.Results = nil
		for _, p := range splitTop(body, ',') {
			if p != "" {
				c.Results = append(c.Results, strings.Fields(p)[0])
			}
		}
	case "modifies":
		for _, p := range splitTop(body, ',') {
			if p != "" {
				c.Modifies = append(c.Modifies, p)
			}
		}
	case "ghostmodifies":
		for _, p := range splitTop(body, ',') {
			if p != "" {
				c.GhostMod = append(c.GhostMod, p)
			}
		}
	case "loopmodifies":
		for _, p := range splitTop(body, ',') {
			if p != "" {
				c.ModLoop[loop] = append(c.ModLoop[loop], p)
			}
		}
	case "let":
		i := strings.Index(body, ":=")
		if i < 0 {
			return fmt.Errorf("%s: let name := expr", where)
		}
		name := strings.TrimSpace(body[:i])
		e, err := parseExpr(body[i+2:])
		if err != nil {
			return fmt.Errorf("%s: %v", where, err)
		}
		if _, dup := c.Lets[name]; dup {
			return fmt.Errorf("%s: duplicate let %s", where, name)
		}
		c.Lets[name] = &Let{name, e}
		c.LetOrder = append(c.LetOrder, name)
	case "atcall":
		// atcall[tags] callee: expr  -- asserted in the caller's frame (locals visible) at every call of `callee`
		i := strings.Index(body, ":")
		if i <= 0 || strings.ContainsAny(strings.TrimSpace(body[:i]), " \t(") {
			return fmt.Errorf("%s: atcall callee: expr", where)
		}
		e, err := parseExpr(body[i+1:])
		if err != nil {
			return fmt.Errorf("%s: %v", where, err)
		}
		c.AtCalls = append(c.AtCalls, &Clause{Kind: kw, Tags: tags, Callee: strings.TrimSpace(body[:i]), E: e, Src: strings.TrimSpace(body[i+1:]), File: it.file, Line: it.line})
	case "requires", "ensures", "invariant", "decreases", "prefer", "crash_invariant", "hint":
		e, err := parseExpr(body)
		if err != nil {
			return fmt.Errorf("%s: %v", where, err)
		}
		cl := &Clause{Kind: kw, Tags: tags, Loop: loop, E: e, Src: body, File: it.file, Line: it.line}
		switch kw {
		case "requires":
			c.Requires = append(c.Requires, cl)
		case "ensures":
			c.Ensures = append(c.Ensures, cl)
		case "invariant":
			c.Invs = append(c.Invs, cl)
		case "decreases":
			c.Decs = append(c.Decs, cl)
		case "prefer":
			c.Prefers = append(c.Prefers, cl)
		case "crash_invariant":
			c.Crash = append(c.Crash, cl)
		case "hint":
			c.Hints = append(c.Hints, cl)
		}
	default:
		return fmt.Errorf("%s: unknown clause %q", where, kw)
	}
	return nil
}

// loadAll loads every .spec under dir (sorted) .
func (sp *Specs) loadSpecDir(dir string) error {
	files, _ := filepath.Glob(filepath.Join(dir, "*.spec"))
	sort.Strings(files)
	for _, f := range files {
		if err := sp.loadSpecFile(f); err != nil {
			return err
		}
	}
	return nil
}
