package main

// Top-level verification of a function against its contract; obligations; loop rules.

import (
	"fmt"
	"go/token"
	"go/types"
	"sort"
	"strings"

	"golang.org/x/tools/go/ssa"
)

func (e *Engine) resultNames(ct *Contract, sig *types.Signature) []string {
	var rnames []string
	for i := 0; i < sig.Results().Len(); i++ {
		n := ""
		if i < len(ct.Results) {
			n = ct.Results[i]
		}
		if n == "" {
			n = sig.Results().At(i).Name()
		}
		if n == "" || n == "_" {
			n = fmt.Sprintf("result%d", i)
		}
		rnames = append(rnames, n)
	}
	return rnames
}

// initState builds the entry state for verifying fn.
func (e *Engine) initState(fn *ssa.Function) (*State, *Frame, map[string]*Val) {
	st := newState()
	fr := &Frame{fn: fn, env: map[ssa.Value]*Val{}, active: map[*ssa.BasicBlock]bool{}, top: true}
	vars := map[string]*Val{}
	for _, p := range fn.Params {
		so := e.reg.sortOf(p.Type())
		name := "p_" + mangle(p.Name())
		st.declare(name, so)
		v := &Val{T: name, S: so, Typ: p.Type()}
		st.assume(e.wfVal(st, name, so))
		fr.env[p] = v
		vars[p.Name()] = v
	}
	for _, p := range fn.FreeVars {
		so := e.reg.sortOf(p.Type())
		name := "fv_" + mangle(p.Name())
		st.declare(name, so)
		v := &Val{T: name, S: so, Typ: p.Type()}
		st.assume(e.wfVal(st, name, so))
		st.assume("(> " + name + " 0)") // captured variables always exist
		fr.env[p] = v
		vars["&"+p.Name()] = v
	}
	// distinct captured cells
	if len(fn.FreeVars) > 1 {
		var ns []string
		for _, p := range fn.FreeVars {
			ns = append(ns, "fv_"+mangle(p.Name()))
		}
		st.assume("(distinct " + strings.Join(ns, " ") + ")")
	}
	e.assumeSentinels(st)
	return st, fr, vars
}

func (e *Engine) assumeSentinels(st *State) {
	var terms, ptrs []string
	var keys []string
	for k := range e.sentinel {
		keys = append(keys, k)
	}
	sort.Strings(keys)
	for _, k := range keys {
		t := e.heapGet(st, st.heap, k)
		if e.heapSort(k) == sInt {
			// a constant package-level pointer (e.g. base64.StdEncoding): non-nil, distinct from the other ones
			ptrs = append(ptrs, t)
			st.assume("(> " + t + " 0)")
			continue
		}
		terms = append(terms, t)
		if _, ok := e.specs.Funcs["isSentinel"]; ok {
			st.assume("(isSentinel " + t + ")")
		}
	}
	if len(terms) > 0 {
		terms = append(terms, "nil_err")
		st.assume("(distinct " + strings.Join(terms, " ") + ")")
	}
	if len(ptrs) > 1 {
		st.assume("(distinct " + strings.Join(ptrs, " ") + ")")
	}
}

func (e *Engine) verifyFunction(fn *ssa.Function, ct *Contract) {
	e.curFn, e.curC = fn, ct
	// fresh names restart for every function (the axioms were named once, before any function, below this number):
	// the queries of one function do not depend on which functions were verified before it in the same run
	e.axiomTexts()
	freshCtr = 100000
	st, fr, vars := e.initState(fn)
	pkg := fn.Package()
	if pkg == nil && fn.Parent() != nil {
		pkg = fn.Parent().Package()
	}
	// names given in the contract header (spec files) are bound positionally, next to the Go parameter names
	for i, p := range fn.Params {
		if i < len(ct.Params) {
			vars[ct.Params[i]] = fr.env[p]
		}
	}
	contracts := []*Contract{ct}
	if ct.Refines != "" {
		rc := e.lookup(ct.Refines)
		ok := rc != nil
		if !ok {
			e.errorf("%s: refines unknown contract %s", fn, ct.Refines)
			return
		}
		contracts = append(contracts, rc)
	}
	varsFor := func(c *Contract) map[string]*Val {
		if c == ct || len(c.Params) == 0 {
			return vars
		}
		m := map[string]*Val{}
		for i, p := range fn.Params {
			if i < len(c.Params) {
				m[c.Params[i]] = fr.env[p]
			}
		}
		return m
	}
	for _, c := range contracts {
		ctx := &EvalCtx{e: e, st: st, vars: varsFor(c), c: c, pkg: pkg, assume: true, fr: fr}
		for _, rq := range c.Requires {
			v, err := ctx.evalAs(rq.E, sBool)
			if err != nil {
				e.errorf("%s: requires %q: %v", fn, rq.Src, err)
				return
			}
			st.assume(v.T)
		}
	}
	st.entry = st.snapshot()
	e.applyHints(&EvalCtx{e: e, st: st, old: st.entry, vars: vars, c: ct, pkg: pkg, fr: fr}, ct, 0)
	entryAllocs := len(st.allocs)
	e.topVars, e.topPkg, e.topFrame = vars, pkg, fr
	e.crashCheck(fr, st, "function entry")
	// vacuity: the precondition must be satisfiable
	e.addObligationExpect(st, fr, "vacuity:requires-satisfiable", []string{"vacuity"}, "requires", fn.String(), "sat")

	e.execBlock(fr, st, fn.Blocks[0], func(st2 *State, rs []*Val) {
		e.paths++
		if e.paths > e.cfg.MaxPaths {
			e.errorf("%s: more than %d paths", fn, e.cfg.MaxPaths)
			e.abort = true
			return
		}
		pathID := e.paths
		e.addObligationExpectPath(st2, fr, "reach:path-reachable", []string{"reach"}, "path", strings.Join(st2.trail, " "), "sat", pathID)
		for _, c := range contracts {
			rv := map[string]*Val{}
			for k, v := range varsFor(c) {
				rv[k] = v
			}
			for i, n := range e.resultNames(c, fn.Signature) {
				if i < len(rs) {
					rv[n] = rs[i]
				}
			}
			ctx := &EvalCtx{e: e, st: st2, old: st2.entry, vars: rv, c: c, pkg: pkg, fr: fr, entryAllocs: entryAllocs}
			e.applyHints(ctx, c, 0)
			if c == ct {
				e.frameCheck(st2, fr, ctx, ct, pathID)
			}
			probes := e.collectProbes(ctx, c)
			var prefs []string
			for _, pf := range c.Prefers {
				save := len(st2.pc)
				if v, err := ctx.evalAs(pf.E, sBool); err == nil {
					prefs = append(prefs, v.T)
				}
				st2.pc = st2.pc[:save]
			}
			for _, en := range c.Ensures {
				if hasTag(en.Tags, "ghost") {
					continue // ghost call records of an interface contract are not obligations of an implementation
				}
				v, err := ctx.evalAs(en.E, sBool)
				if err != nil {
					e.errorf("%s: ensures %q: %v", fn, en.Src, err)
					continue
				}
				goal := v.T
				for _, kf := range e.known {
					if !strings.HasSuffix(fn.String(), kf.Function) || !hasTag(en.Tags, kf.Obligation) {
						continue
					}
					rx, err := parseExpr(kf.Region)
					if err != nil {
						e.errorf("known finding %s: %v", kf.Obligation, err)
						continue
					}
					rv, err := ctx.evalAs(rx, sBool)
					if err != nil {
						e.errorf("known finding %s region: %v", kf.Obligation, err)
						continue
					}
					oi := e.addObligation(st2, fr, "known-inside", en.Tags, en.Src, kf.Region, "(=> "+rv.T+" "+v.T+")", probes)
					oi.Path = pathID
					goal = or(rv.T, goal)
				}
				tags := en.Tags
				if c != ct && len(tags) == 0 {
					// clauses of a refined (interface) contract belong to every property the implementation's own clauses name
					seen := map[string]bool{}
					for _, own := range ct.Ensures {
						for _, t := range own.Tags {
							if !seen[t] {
								seen[t] = true
								tags = append(tags, t)
							}
						}
					}
				}
				o := e.addObligation(st2, fr, "ensures", tags, en.Src, fmt.Sprintf("%s:%d", en.File, en.Line), goal, probes)
				o.Path = pathID
				o.Prefer = prefs
			}
		}
	})
}

// collectProbes gathers contract-level scalar terms for counterexample projection.
func (e *Engine) collectProbes(ctx *EvalCtx, c *Contract) []Probe {
	var ps []Probe
	scalar := func(s string) bool { return s == sBool || s == sInt || bvWidth(s) > 0 }
	var names []string
	for n := range ctx.vars {
		names = append(names, n)
	}
	sort.Strings(names)
	for _, n := range names {
		v := ctx.vars[n]
		switch {
		case scalar(v.S):
			ps = append(ps, Probe{n, v.T})
		case v.S == sBytes:
			ps = append(ps, Probe{"isnil(" + n + ")", "(b_nil " + v.T + ")"}, Probe{"len(" + n + ")", "(slen (b_str " + v.T + "))"})
		case v.S == sStr:
			ps = append(ps, Probe{"len(" + n + ")", "(slen " + v.T + ")"})
		case v.S == sSlice:
			ps = append(ps, Probe{"len(" + n + ")", "(s_len " + v.T + ")"})
		case v.S == sErr:
			ps = append(ps, Probe{n + "==nil", eq(v.T, "nil_err")})
		}
	}
	for _, ln := range c.LetOrder {
		save := len(ctx.st.pc)
		v, err := ctx.eval(c.Lets[ln].E)
		ctx.st.pc = ctx.st.pc[:save]
		if err == nil && scalar(v.S) && !strings.Contains(v.T, "forall") && !strings.Contains(v.T, "exists") {
			ps = append(ps, Probe{ln, v.T})
		}
	}
	return ps
}

// ---------------------------------------------------------------- obligations and queries

func (e *Engine) queryPrefix(st *State) string {
	return e.queryPrefixOpt(st, false)
}

// queryPrefixOpt: with dropQuant, quantified assumptions are left out (used for satisfiability /
// reachability sanity checks, where a quantifier makes the solvers answer `unknown`).
func (e *Engine) queryPrefixOpt(st *State, dropQuant bool) string {
	var b strings.Builder
	e.axiomTexts() // registers the string literals the axioms mention before literals are declared
	b.WriteString(preamble)
	b.WriteString(declMarker + "\n")
	b.WriteString(e.specDecls())
	b.WriteString(litMarker + "\n")
	for _, d := range st.decls {
		b.WriteString(d)
		b.WriteByte('\n')
	}
	b.WriteString(axiomMarker + "\n")
	for _, p := range st.pc {
		if dropQuant && (strings.Contains(p, "(forall ") || strings.Contains(p, "(exists ")) {
			continue
		}
		b.WriteString("(assert " + p + ")\n")
	}
	return b.String()
}

func (e *Engine) specDecls() string {
	var b strings.Builder
	for _, n := range e.specs.FuncOrder {
		f := e.specs.Funcs[n]
		if f.Def != nil || preambleFuncs[n] {
			continue
		}
		var ps []string
		for _, p := range f.PSorts {
			s, err := e.reg.specSort(p)
			if err != nil {
				e.errorf("spec func %s: %v", n, err)
				continue
			}
			ps = append(ps, s)
		}
		rs, err := e.reg.specSort(f.Ret)
		if err != nil {
			e.errorf("spec func %s: %v", n, err)
			continue
		}
		fmt.Fprintf(&b, "(declare-fun %s (%s) %s)\n", n, strings.Join(ps, " "), rs)
	}
	return b.String()
}

var axiomCache []string
var axiomSyms [][]string
var axiomDone bool

// relevantAxioms: an axiom is included in a query only if the query mentions one of the spec functions the
// axiom is about (so quantified axioms of one vocabulary do not turn every other query into `unknown`).
func (e *Engine) relevantAxioms(query string) []string {
	all := e.axiomTexts()
	var out []string
	for i, a := range all {
		if len(axiomSyms[i]) == 0 {
			out = append(out, a)
			continue
		}
		for _, s := range axiomSyms[i] {
			if strings.Contains(query, "("+s+" ") {
				out = append(out, a)
				break
			}
		}
	}
	return out
}

// constStr / constBool evaluate a ground expression over string literals (++, cat2, ==, &&) in Go itself:
// an axiom[computed] is a fact about literal text that the engine checks rather than assumes.
func constStr(x *Expr) (string, bool) {
	switch {
	case x.Op == "str":
		return x.S, true
	case x.Op == "++" || (x.Op == "call" && x.S == "cat2"):
		if len(x.Args) != 2 {
			return "", false
		}
		a, ok1 := constStr(x.Args[0])
		b, ok2 := constStr(x.Args[1])
		return a + b, ok1 && ok2
	}
	return "", false
}

func constBool(x *Expr) (val, known bool) {
	switch x.Op {
	case "==":
		a, ok1 := constStr(x.Args[0])
		b, ok2 := constStr(x.Args[1])
		return a == b, ok1 && ok2
	case "&&":
		a, ok1 := constBool(x.Args[0])
		b, ok2 := constBool(x.Args[1])
		return a && b, ok1 && ok2
	}
	return false, false
}

func (e *Engine) axiomTexts() []string {
	if axiomDone {
		return axiomCache
	}
	axiomDone = true
	scratch := newState()
	for _, a := range e.specs.Axioms {
		if a.Manual {
			continue
		}
		if a.Computed {
			if ok, known := constBool(a.E); !known || !ok {
				e.errorf("axiom[computed] %s: does not evaluate to true over string literals", a.Name)
				continue
			}
		}
		ctx := &EvalCtx{e: e, st: scratch, vars: map[string]*Val{}}
		v, err := ctx.evalAs(a.E, sBool)
		if err != nil {
			e.errorf("axiom %s: %v", a.Name, err)
			continue
		}
		axiomCache = append(axiomCache, v.T)
		var syms []string
		for n, f := range e.specs.Funcs {
			if f.Def == nil && !preambleFuncs[n] && strings.Contains(v.T, "("+n+" ") {
				syms = append(syms, n)
			}
		}
		axiomSyms = append(axiomSyms, syms)
	}
	if len(scratch.decls) > 0 {
		e.errorf("axioms must not mention program state (declared: %v)", scratch.decls)
	}
	return axiomCache
}

func (e *Engine) addObligation(st *State, fr *Frame, kind string, tags []string, clause, where, goal string, probes []Probe) *Obligation {
	if tags == nil {
		tags = []string{}
	}
	o := &Obligation{
		Func: e.curFn.String(), Kind: kind, Tags: tags, Clause: clause, Where: where,
		Trail: strings.Join(st.trail, " "), Expect: "unsat", Probes: probes, Notes: dedup(st.notes),
	}
	o.Query = e.finishQuery(e.queryPrefix(st)+"(assert (not "+goal+"))\n", false)
	o.ID = fmt.Sprintf("%s/%s/%d", shortName(e.curFn.String()), kind, len(e.obls)+1)
	e.obls = append(e.obls, o)
	return o
}

func dedup(xs []string) []string {
	var out []string
	seen := map[string]bool{}
	for _, x := range xs {
		if !seen[x] {
			seen[x] = true
			out = append(out, x)
		}
	}
	return out
}

func (e *Engine) addObligationExpect(st *State, fr *Frame, kind string, tags []string, clause, where, expect string) *Obligation {
	return e.addObligationExpectPath(st, fr, kind, tags, clause, where, expect, 0)
}

func (e *Engine) addObligationExpectPath(st *State, fr *Frame, kind string, tags []string, clause, where, expect string, path int) *Obligation {
	o := &Obligation{
		Func: e.curFn.String(), Kind: kind, Tags: tags, Clause: clause, Where: where,
		Trail: strings.Join(st.trail, " "), Expect: expect, Path: path,
	}
	o.Query = e.finishQuery(e.queryPrefixOpt(st, true), true)
	o.ID = fmt.Sprintf("%s/%s/%d", shortName(e.curFn.String()), kind, len(e.obls)+1)
	e.obls = append(e.obls, o)
	return o
}

// ---------------------------------------------------------------- loops

func (e *Engine) loopCtx(fr *Frame, st *State, hdr *ssa.BasicBlock, assume bool) *EvalCtx {
	c := e.contractFor(fr.fn)
	pkg := fr.fn.Package()
	if pkg == nil && fr.fn.Parent() != nil {
		pkg = fr.fn.Parent().Package()
	}
	vars := map[string]*Val{}
	for _, p := range fr.fn.Params {
		vars[p.Name()] = fr.env[p]
	}
	return &EvalCtx{e: e, st: st, old: st.entry, vars: vars, c: c, pkg: pkg, fr: fr, hdr: hdr, assume: assume}
}

func (e *Engine) checkLoopInvariants(fr *Frame, st *State, hdr *ssa.BasicBlock, ord int, kind string) {
	c := e.contractFor(fr.fn)
	if c == nil {
		return
	}
	ctx := e.loopCtx(fr, st, hdr, false)
	e.applyHints(ctx, c, ord)
	for _, inv := range c.Invs {
		if inv.Loop != ord {
			continue
		}
		v, err := ctx.evalAs(inv.E, sBool)
		if err != nil {
			e.errorf("%s: invariant#%d %q: %v", fr.fn, ord, inv.Src, err)
			continue
		}
		e.addObligation(st, fr, kind, inv.Tags, fmt.Sprintf("loop#%d invariant %s", ord, inv.Src), fmt.Sprintf("%s:%d", inv.File, inv.Line), v.T, nil)
	}
}

func (e *Engine) assumeLoopInvariants(fr *Frame, st *State, hdr *ssa.BasicBlock, ord int) {
	c := e.contractFor(fr.fn)
	if c == nil {
		return
	}
	ctx := e.loopCtx(fr, st, hdr, true)
	e.applyHints(ctx, c, ord)
	for _, inv := range c.Invs {
		if inv.Loop != ord {
			continue
		}
		v, err := ctx.evalAs(inv.E, sBool)
		if err != nil {
			e.errorf("%s: invariant#%d %q: %v", fr.fn, ord, inv.Src, err)
			continue
		}
		st.assume(v.T)
	}
}

func (e *Engine) recordVariant(fr *Frame, st *State, hdr *ssa.BasicBlock, ord int) {
	c := e.contractFor(fr.fn)
	if c == nil {
		return
	}
	ctx := e.loopCtx(fr, st, hdr, true)
	for _, d := range c.Decs {
		if d.Loop != ord {
			continue
		}
		v, err := ctx.eval(d.E)
		if err != nil {
			e.errorf("%s: decreases#%d %q: %v", fr.fn, ord, d.Src, err)
			continue
		}
		if v.S == "NUM" {
			v, _ = ctx.coerce(v, sInt)
		}
		n := st.fresh("variant0", v.S)
		st.pc = append(st.pc, eq(n, v.T))
		// keep in the env under a synthetic key: use the header's first instruction as key holder
		if fr.variants == nil {
			fr.variants = map[int]*Val{}
		}
		fr.variants[ord] = &Val{T: n, S: v.S, Typ: v.Typ}
	}
}

func (e *Engine) checkDecreases(fr *Frame, st *State, hdr *ssa.BasicBlock, ord int) {
	c := e.contractFor(fr.fn)
	if c == nil {
		c = &Contract{}
	}
	ctx := e.loopCtx(fr, st, hdr, false)
	found := false
	for _, d := range c.Decs {
		if d.Loop != ord {
			continue
		}
		found = true
		v0 := fr.variants[ord]
		if v0 == nil {
			continue
		}
		v, err := ctx.eval(d.E)
		if err != nil {
			e.errorf("%s: decreases#%d %q: %v", fr.fn, ord, d.Src, err)
			continue
		}
		v, err = ctx.coerce(v, v0.S)
		if err != nil {
			e.errorf("%s: decreases#%d: %v", fr.fn, ord, err)
			continue
		}
		var goal string
		if bvWidth(v0.S) > 0 {
			goal = and("(bvslt "+v.T+" "+v0.T+")", "(bvsge "+v0.T+" "+bvLit(0, bvWidth(v0.S))+")")
		} else {
			goal = and("(< "+v.T+" "+v0.T+")", "(>= "+v0.T+" 0)")
		}
		e.addObligation(st, fr, "decreases", append([]string{"termination"}, d.Tags...), fmt.Sprintf("loop#%d decreases %s", ord, d.Src), fmt.Sprintf("%s:%d", d.File, d.Line), goal, nil)
	}
	if !found && e.cfg.Safety && rangeLoopTerminates(fr, hdr) {
		// `for ... := range slice/array`: the hidden index grows by one per iteration up to a length fixed before the loop
		return
	}
	if !found && e.cfg.Safety {
		o := e.addObligation(st, fr, "decreases", []string{"termination"}, fmt.Sprintf("loop#%d has no decreases clause: termination not shown", ord), fr.fn.String(), "false", nil)
		o.Query = preamble + "(assert true)\n"
	}
}

// rangeLoopTerminates: hdr is the header of a range-over-slice/array loop as go/ssa builds it -- a range-index phi (see
// isRangeIndex), and the header leaves the loop unless index+1 < n for an n computed outside the loop.
func rangeLoopTerminates(fr *Frame, hdr *ssa.BasicBlock) bool {
	var phi *ssa.Phi
	for _, in := range hdr.Instrs {
		if p, ok := in.(*ssa.Phi); ok && isRangeIndex(p) {
			phi = p
		}
	}
	if phi == nil || len(hdr.Instrs) == 0 {
		return false
	}
	br, ok := hdr.Instrs[len(hdr.Instrs)-1].(*ssa.If)
	if !ok {
		return false
	}
	cmp, ok := br.Cond.(*ssa.BinOp)
	if !ok || cmp.Op != token.LSS {
		return false
	}
	inc, ok := cmp.X.(*ssa.BinOp)
	if !ok || inc.Op != token.ADD || inc.X != ssa.Value(phi) {
		return false
	}
	// the false branch must leave the loop, the bound must be defined outside it
	body := fr.loops.body[hdr]
	if len(hdr.Succs) != 2 || body[hdr.Succs[1]] {
		return false
	}
	switch n := cmp.Y.(type) {
	case *ssa.Const:
		return true
	case ssa.Instruction:
		return n.Block() != nil && !body[n.Block()]
	}
	return false
}

// havocLoop havocs everything the loop body may modify.
func (e *Engine) havocLoop(fr *Frame, st *State, hdr *ssa.BasicBlock, c *Contract, ord int) {
	keys := map[string]bool{}
	ghosts := map[string]bool{}
	all := false
	seen := map[*ssa.Function]bool{}
	var scanFn func(fn *ssa.Function, blocks []*ssa.BasicBlock, depth int)
	scanInstr := func(in ssa.Instruction, depth int) {
		switch y := in.(type) {
		case *ssa.Store:
			e.storeKeys(y.Addr, keys, &all)
		case *ssa.MapUpdate:
			mt := y.Map.Type().Underlying().(*types.Map)
			ks, vs := e.reg.sortOf(mt.Key()), e.reg.sortOf(mt.Elem())
			keys[e.keyMapP(ks, vs)] = true
			keys[e.keyMapV(ks, vs)] = true
		case *ssa.Next:
			if !y.IsString {
				if r, ok := y.Iter.(*ssa.Range); ok {
					if mt, ok := r.X.Type().Underlying().(*types.Map); ok {
						ks := e.reg.sortOf(mt.Key())
						keys[e.keyIterV(ks)] = true
						keys[e.keyIterP(ks)] = true
						keys[e.keyIterC()] = true
					}
				}
			}
		case *ssa.Alloc:
			e.allocKeys(y.Type().(*types.Pointer).Elem(), keys)
		case *ssa.MakeSlice:
			if !isByteSlice(y.Type()) {
				keys[e.keyElem(e.reg.sortOf(y.Type().Underlying().(*types.Slice).Elem()))] = true
			}
		case *ssa.MakeMap:
			mt := y.Type().Underlying().(*types.Map)
			keys[e.keyMapP(e.reg.sortOf(mt.Key()), e.reg.sortOf(mt.Elem()))] = true
		case ssa.CallInstruction:
			cc := y.Common()
			if b, ok := cc.Value.(*ssa.Builtin); ok {
				if b.Name() == "append" && !isByteSlice(cc.Args[0].Type()) {
					keys[e.keyElem(e.reg.sortOf(cc.Args[0].Type().Underlying().(*types.Slice).Elem()))] = true
				}
				return
			}
			var ct *Contract
			var callee *ssa.Function
			if cc.IsInvoke() {
				for _, k := range e.ifaceKeys(cc) {
					if x := e.lookup(k); x != nil {
						ct = x
						break
					}
				}
			} else if callee = cc.StaticCallee(); callee != nil {
				if _, ok := intrinsics[callee.String()]; ok {
					if strings.HasPrefix(callee.String(), "(*strings.Builder).Write") {
						ghosts["sb_val"] = true
					}
					return
				}
				ct = e.lookup(callee.String())
			} else if k := e.funcValueKey(cc.Value); k != "" {
				ct = e.lookup(k)
			}
			if ct != nil && (callee == nil || ct.Opts["inline"] == "") {
				for _, m := range append(append([]string{}, ct.Modifies...), ct.GhostMod...) {
					switch {
					case e.specs.Ghosts[m] != nil:
						ghosts[m] = true
					case m == "heap":
						all = true
					case m == "globals":
						for k := range e.hsorts {
							if strings.HasPrefix(k, "G|") && !e.isSentinelKey(k) {
								keys[k] = true
							}
						}
					case strings.HasPrefix(m, "*"):
						// out-parameter cell: find the pointee sort from the signature
						sig := cc.Signature()
						for i := 0; i < sig.Params().Len(); i++ {
							if pt, ok := sig.Params().At(i).Type().Underlying().(*types.Pointer); ok {
								e.allocKeys(pt.Elem(), keys)
							}
						}
						// variadic ...any out-params: pointers boxed in interfaces; conservatively all cells
						for k := range e.hsorts {
							if strings.HasPrefix(k, "C|") {
								keys[k] = true
							}
						}
					case strings.HasPrefix(m, "key:"):
						keys[m[4:]] = true
					}
				}
				return
			}
			if callee != nil && callee.Blocks != nil && e.isRepoFunc(callee) && depth < 6 {
				if !seen[callee] {
					seen[callee] = true
					scanFn(callee, callee.Blocks, depth+1)
				}
				return
			}
			name := "?"
			if callee != nil {
				name = callee.String()
			}
			if e.noEffect(name) {
				return
			}
			all = true
			st.notes = append(st.notes, fmt.Sprintf("heap havocked at loop #%d: its body calls %s, which has no contract", ord, name))
		}
	}
	scanFn = func(fn *ssa.Function, blocks []*ssa.BasicBlock, depth int) {
		for _, b := range blocks {
			for _, in := range b.Instrs {
				scanInstr(in, depth)
			}
		}
	}
	var blocks []*ssa.BasicBlock
	for b := range fr.loops.body[hdr] {
		blocks = append(blocks, b)
	}
	sort.Slice(blocks, func(i, j int) bool { return blocks[i].Index < blocks[j].Index })
	scanFn(fr.fn, blocks, 0)
	for _, m := range c.ModLoop[ord] {
		if e.specs.Ghosts[m] != nil {
			ghosts[m] = true
		} else if m == "heap" {
			all = true
		} else if m == "globals" {
			for k := range e.hsorts {
				if strings.HasPrefix(k, "G|") && !e.isSentinelKey(k) {
					keys[k] = true
				}
			}
		} else if strings.HasPrefix(m, "key:") {
			keys[m[4:]] = true
		}
	}
	if all {
		e.havocAllHeap(st)
	} else {
		allowed, allowAll := e.frameAllowed(fr, st, c, ord)
		var ks []string
		for k := range keys {
			ks = append(ks, k)
		}
		sort.Strings(ks)
		for _, k := range ks {
			if allowAll || allowed[k] || strings.HasPrefix(k, "G|") || !strings.HasPrefix(e.heapSort(k), "(Array Int ") {
				e.heapHavoc(st, k)
				continue
			}
			// Not in `modifies`: objects that existed at function entry keep their content (the loop-frame obligation
			// at the back edge proves it); only objects allocated by this function are havocked.  No quantifier needed.
			cur := e.heapGet(st, st.heap, k)
			_, vs := arraySorts(e.heapSort(k))
			t := cur
			for _, a := range st.allocs {
				t = sto(t, a, st.fresh("lh", vs))
			}
			e.heapSet(st, k, t)
			for fk := range st.facts {
				if strings.HasPrefix(fk, k+"@") {
					delete(st.facts, fk)
				}
			}
		}
	}
	var gs []string
	for g := range ghosts {
		gs = append(gs, g)
	}
	sort.Strings(gs)
	for _, g := range gs {
		st.ghost[g] = st.fresh("g_"+g, e.ghostSort(g))
		for fk := range st.facts {
			if strings.HasPrefix(fk, "GHOST:"+g+"@") {
				delete(st.facts, fk)
			}
		}
	}
}

func (e *Engine) allocKeys(t types.Type, keys map[string]bool) {
	switch u := t.Underlying().(type) {
	case *types.Struct:
		ss := e.reg.structSort(t)
		for i := 0; i < u.NumFields(); i++ {
			if _, nested := u.Field(i).Type().Underlying().(*types.Struct); nested {
				e.allocKeys(u.Field(i).Type(), keys)
				continue
			}
			keys[e.keyField(ss, i)] = true
		}
	case *types.Array:
		keys[e.keyElem(e.reg.sortOf(u.Elem()))] = true
	default:
		keys[e.keyCell(e.reg.sortOf(t))] = true
	}
}

func (e *Engine) storeKeys(addr ssa.Value, keys map[string]bool, all *bool) {
	switch a := addr.(type) {
	case *ssa.FieldAddr:
		st := a.X.Type().Underlying().(*types.Pointer).Elem()
		ft := st.Underlying().(*types.Struct).Field(a.Field).Type()
		if _, nested := ft.Underlying().(*types.Struct); nested {
			e.allocKeys(ft, keys)
			return
		}
		keys[e.keyField(e.reg.structSort(st), a.Field)] = true
	case *ssa.IndexAddr:
		switch u := a.X.Type().Underlying().(type) {
		case *types.Slice:
			keys[e.keyElem(e.reg.sortOf(u.Elem()))] = true
		case *types.Pointer:
			keys[e.keyElem(e.reg.sortOf(u.Elem().Underlying().(*types.Array).Elem()))] = true
		}
	case *ssa.Global:
		keys[e.keyGlobal(a)] = true
	default:
		e.allocKeys(addr.Type().Underlying().(*types.Pointer).Elem(), keys)
	}
}

func hasTag(tags []string, t string) bool {
	for _, x := range tags {
		if x == t {
			return true
		}
	}
	return false
}

const axiomMarker = ";;AXIOMS;;"

// finishQuery inserts the relevant axioms (decided on the whole query text, goal included).
const litMarker = ";;LITERALS;;"
const declMarker = ";;STRUCTS;;"

// finishQuery inserts the relevant axioms and then the declarations of exactly the string literals the query mentions.
func (e *Engine) finishQuery(q string, dropQuant bool) string {
	litReg = e.reg
	return e.finishQuery0(q, dropQuant) // the literal marker is resolved when the query is written (solve.go)
}

var litReg *SortReg

func (e *Engine) finishQuery0(q string, dropQuant bool) string {
	var ax strings.Builder
	if e.curC != nil && e.curC.Opts["axioms"] == "none" || e.noAxioms {
		return strings.Replace(q, axiomMarker+"\n", "", 1)
	}
	if !dropQuant {
		for _, a := range e.relevantAxioms(q) {
			ax.WriteString("(assert " + a + ")\n")
		}
	} else {
		for _, a := range e.relevantAxioms(q) {
			if !strings.Contains(a, "(forall ") && !strings.Contains(a, "(exists ") {
				ax.WriteString("(assert " + a + ")\n")
			}
		}
	}
	return strings.Replace(q, axiomMarker+"\n", ax.String(), 1)
}

var preambleFuncs = map[string]bool{"fmt_d": true, "fmt_du": true, "fmt_03d": true, "fieldref": true, "boxref": true, "slen": true, "sat": true, "scat": true, "ssub": true}

// frameCheck: everything the body changed that a caller could observe must be listed in `modifies`.
// Heap arrays are compared on references that existed at entry (r >= 0, or allocated before entry);
// ghost variables and globals by equality.  Callers havoc exactly the declared targets, so an
// incomplete frame would make call sites unsound: it is an obligation of the callee.
func (e *Engine) frameCheck(st *State, fr *Frame, ctx *EvalCtx, ct *Contract, pathID int) {
	octx := *ctx
	octx.inOld = true
	mt, err := e.resolveMods(&octx, ct.Modifies)
	if err != nil {
		e.errorf("%s: modifies: %v", fr.fn, err)
		return
	}
	if mt.all {
		return
	}
	allowedKey := map[string]bool{}
	for _, k := range mt.keys {
		allowedKey[k] = true
	}
	// designators that name single objects (`x.f`, `*p`): every OTHER pre-existing object of that heap kind must be unchanged
	partial := map[string][]string{}
	for _, fo := range mt.fobjs {
		partial[fo.key] = append(partial[fo.key], fo.base)
	}
	for _, p := range mt.cells {
		pt := p.Typ.Underlying().(*types.Pointer)
		if objs := e.cellObjs(st, p, pt.Elem()); objs != nil {
			for _, fo := range objs {
				partial[fo.key] = append(partial[fo.key], fo.base)
			}
			continue
		}
		ks := map[string]bool{}
		if p.Addr != nil {
			ks[p.Addr.Key] = true
		} else {
			e.allocKeys(pt.Elem(), ks)
		}
		for k := range ks {
			allowedKey[k] = true
		}
	}
	allowedGhost := map[string]bool{}
	for _, g := range mt.ghosts {
		allowedGhost[g] = true
	}
	var keys []string
	for k := range st.heap {
		keys = append(keys, k)
	}
	sort.Strings(keys)
	for _, k := range keys {
		now := st.heap[k]
		was, ok := st.entry.heap[k]
		if !ok {
			was = "H0_" + mangle(k)
			st.declare(was, e.heapSort(k))
		}
		if now == was || allowedKey[k] {
			continue
		}
		var goal string
		if strings.HasPrefix(k, "G|") {
			goal = eq(now, was)
		} else {
			r := freshName("q_r")
			guard := "(>= " + r + " 0)"
			for _, b := range partial[k] {
				guard = and(guard, not(eq(r, b)))
			}
			goal = "(forall ((" + r + " Int)) (=> " + guard + " (= (select " + now + " " + r + ") (select " + was + " " + r + "))))"
		}
		o := e.addObligation(st, fr, "frame", []string{"frame"}, "heap "+k+" unchanged for pre-existing objects (not in modifies)", fr.fn.String(), goal, nil)
		o.Path = pathID
	}
	var gs []string
	for g := range st.ghost {
		gs = append(gs, g)
	}
	sort.Strings(gs)
	for _, g := range gs {
		now := st.ghost[g]
		was, ok := st.entry.ghost[g]
		if !ok {
			was = "G0_" + g
			st.declare(was, e.ghostSort(g))
		}
		if now == was || allowedGhost[g] {
			continue
		}
		o := e.addObligation(st, fr, "frame", []string{"frame"}, "ghost "+g+" unchanged (not in modifies)", fr.fn.String(), eq(now, was), nil)
		o.Path = pathID
	}
}

// loopFrame is the implicit frame invariant of every loop: objects that existed when the function was
// entered (references >= 0) and globals are not modified by the loop unless the function's `modifies`
// names their heap kind.  Assumed after the loop havoc (assume=true), asserted at the back edge.
// frameAllowed: heap keys the function's `modifies` (or loopmodifies) allows a loop to change on pre-existing objects.
func (e *Engine) frameAllowed(fr *Frame, st *State, c *Contract, ord int) (map[string]bool, bool) {
	allowed := map[string]bool{}
	all := false
	if c != nil {
		vars := map[string]*Val{}
		for _, p := range fr.fn.Params {
			vars[p.Name()] = fr.env[p]
		}
		ctx := &EvalCtx{e: e, st: st, old: st.entry, inOld: true, vars: vars, c: c, pkg: fr.fn.Package(), fr: fr}
		if mt, err := e.resolveMods(ctx, c.Modifies); err == nil {
			all = mt.all
			for _, k := range mt.keys {
				allowed[k] = true
			}
			for _, fo := range mt.fobjs {
				allowed[fo.key] = true
			}
			for _, p := range mt.cells {
				ks := map[string]bool{}
				if p.Addr != nil {
					ks[p.Addr.Key] = true
				} else {
					e.allocKeys(p.Typ.Underlying().(*types.Pointer).Elem(), ks)
				}
				for k := range ks {
					allowed[k] = true
				}
			}
		}
		for _, m := range c.ModLoop[ord] {
			if strings.HasPrefix(m, "key:") {
				allowed[m[4:]] = true
			}
		}
	}
	return allowed, all
}

func (e *Engine) loopFrame(fr *Frame, st *State, c *Contract, ord int, pre map[string]string, assume bool) {
	if assume {
		if fr.loopPre == nil {
			fr.loopPre = map[int]map[string]string{}
		} else {
			n := map[int]map[string]string{}
			for k, v := range fr.loopPre {
				n[k] = v
			}
			fr.loopPre = n
		}
		fr.loopPre[ord] = pre
	} else {
		pre = fr.loopPre[ord]
	}
	allowed := map[string]bool{}
	all := false
	if c != nil {
		vars := map[string]*Val{}
		for _, p := range fr.fn.Params {
			vars[p.Name()] = fr.env[p]
		}
		ctx := &EvalCtx{e: e, st: st, old: st.entry, inOld: true, vars: vars, c: c, pkg: fr.fn.Package(), fr: fr}
		if mt, err := e.resolveMods(ctx, c.Modifies); err == nil {
			all = mt.all
			for _, k := range mt.keys {
				allowed[k] = true
			}
			for _, fo := range mt.fobjs {
				allowed[fo.key] = true
			}
			for _, p := range mt.cells {
				ks := map[string]bool{}
				if p.Addr != nil {
					ks[p.Addr.Key] = true
				} else {
					e.allocKeys(p.Typ.Underlying().(*types.Pointer).Elem(), ks)
				}
				for k := range ks {
					allowed[k] = true
				}
			}
		}
		for _, m := range c.ModLoop[ord] {
			if strings.HasPrefix(m, "key:") {
				allowed[m[4:]] = true
			}
		}
	}
	if all {
		return
	}
	var keys []string
	for k := range st.heap {
		keys = append(keys, k)
	}
	sort.Strings(keys)
	for _, k := range keys {
		now := st.heap[k]
		was, ok := pre[k]
		if !ok {
			was = "H0_" + mangle(k)
			st.declare(was, e.heapSort(k))
		}
		if now == was || allowed[k] {
			continue
		}
		var f string
		if strings.HasPrefix(k, "G|") {
			f = eq(now, was)
		} else {
			r := freshName("q_r")
			f = "(forall ((" + r + " Int)) (=> (>= " + r + " 0) (= (select " + now + " " + r + ") (select " + was + " " + r + "))))"
		}
		if assume {
			// nothing to assume: havocLoop left pre-existing objects untouched for this key
			_ = f
		} else {
			e.addObligation(st, fr, "invariant-preserved", []string{"frame"}, fmt.Sprintf("loop#%d frame: heap %s unchanged for objects that existed at function entry", ord, k), fr.fn.String(), f, nil)
		}
	}
}

// crashCheck asserts the crash invariants of the function under verification at an external-call boundary:
// a crash there leaves exactly the durable state that the invariant describes.
func (e *Engine) crashCheck(fr *Frame, st *State, where string) {
	if e.curC == nil || len(e.curC.Crash) == 0 {
		return
	}
	ctx := &EvalCtx{e: e, st: st, old: st.entry, vars: e.topVars, c: e.curC, pkg: e.topPkg}
	for _, ci := range e.curC.Crash {
		v, err := ctx.evalAs(ci.E, sBool)
		if err != nil {
			e.errorf("%s: crash_invariant %q: %v", e.curFn, ci.Src, err)
			continue
		}
		e.addObligation(st, fr, "crash-invariant", ci.Tags, "crash_invariant "+ci.Src+"  @ "+where, fmt.Sprintf("%s:%d", ci.File, ci.Line), v.T, nil)
	}
}

// topProbes / topPrefers: contract-level projection terms of the function under verification, for obligations
// raised in the middle of a path (callee preconditions, safety).
func (e *Engine) topProbes(st *State) []Probe {
	if e.curC == nil || e.topVars == nil {
		return nil
	}
	ctx := &EvalCtx{e: e, st: st, old: st.entry, vars: e.topVars, c: e.curC, pkg: e.topPkg, fr: e.topFrame}
	return e.collectProbes(ctx, e.curC)
}

func (e *Engine) topPrefers(st *State) []string {
	if e.curC == nil || e.topVars == nil {
		return nil
	}
	ctx := &EvalCtx{e: e, st: st, old: st.entry, vars: e.topVars, c: e.curC, pkg: e.topPkg, fr: e.topFrame}
	var prefs []string
	for _, pf := range e.curC.Prefers {
		save := len(st.pc)
		if v, err := ctx.evalAs(pf.E, sBool); err == nil {
			prefs = append(prefs, v.T)
		}
		st.pc = st.pc[:save]
	}
	return prefs
}

// applyHints assumes the instances of manual axioms requested by `hint` clauses of contract c for loop `ord`
// (0 = function level), evaluated in the current state.  An instance of an (assumed) axiom is a true fact, so
// hints are assumed, never checked.
func (e *Engine) applyHints(ctx *EvalCtx, c *Contract, ord int) {
	if c == nil {
		return
	}
	for _, h := range c.Hints {
		if h.Loop != ord {
			continue
		}
		if h.E.Op != "call" {
			e.errorf("hint %q: expected axiomName(args...)", h.Src)
			continue
		}
		var ax *Axiom
		for _, a := range e.specs.Axioms {
			if a.Name == h.E.S {
				ax = a
			}
		}
		if ax == nil || (ax.E.Op != "forall") {
			e.errorf("hint %q: no quantified axiom named %s", h.Src, h.E.S)
			continue
		}
		if len(h.E.Args) != len(ax.E.BNames) {
			e.errorf("hint %q: axiom %s has %d binders", h.Src, ax.Name, len(ax.E.BNames))
			continue
		}
		saved := ctx.bound
		nb := map[string]*Val{}
		for k, v := range saved {
			nb[k] = v
		}
		ok := true
		for i, bn := range ax.E.BNames {
			so, ty, err := ctx.sortFromName(ax.E.BSorts[i])
			if err != nil {
				e.errorf("hint %q: %v", h.Src, err)
				ok = false
				break
			}
			av, err := ctx.evalAs(h.E.Args[i], so)
			if err != nil {
				e.errorf("hint %q: argument %d: %v", h.Src, i, err)
				ok = false
				break
			}
			nv := *av
			if ty != nil {
				nv.Typ = ty
			}
			nb[bn] = &nv
		}
		if !ok {
			continue
		}
		// evaluate the axiom body with the binders bound to the given terms (in a neutral context: no lets, no locals)
		sub := &EvalCtx{e: e, st: ctx.st, vars: map[string]*Val{}, bound: nb}
		v, err := sub.evalAs(ax.E.Args[0], sBool)
		if err != nil {
			e.errorf("hint %q: %v", h.Src, err)
			continue
		}
		ctx.st.assume(v.T)
	}
}
