package main

// Range/Next over maps.  The iteration order is unspecified: every call of Next picks an arbitrary key that is
// present and not yet visited.  Ghost iterator state (per iterator reference):
//   ITV|K : visited keys      ITP|K : position at which a key was produced      ITC : number of keys produced
// Loop invariants refer to it through $visited, $pos and $count.

import (
	"fmt"
	"go/types"

	"golang.org/x/tools/go/ssa"
)

func (e *Engine) keyIterV(ks string) string {
	k := "ITV|" + ks
	if _, ok := e.hsorts[k]; !ok {
		e.hsorts[k] = arr(sInt, arr(ks, sBool))
	}
	return k
}

func (e *Engine) keyIterP(ks string) string {
	k := "ITP|" + ks
	if _, ok := e.hsorts[k]; !ok {
		e.hsorts[k] = arr(sInt, arr(ks, sBV64))
	}
	return k
}

func (e *Engine) keyIterC() string {
	k := "ITC"
	if _, ok := e.hsorts[k]; !ok {
		e.hsorts[k] = arr(sInt, sBV64)
	}
	return k
}

func (e *Engine) rangeInstr(fr *Frame, st *State, r *ssa.Range) (*Val, error) {
	mt, ok := r.X.Type().Underlying().(*types.Map)
	if !ok {
		return nil, fmt.Errorf("range over %s not supported", r.X.Type())
	}
	m := e.operand(fr, st, r.X)
	e.guardCheck(fr, st, m, false, r.Pos())
	ks := e.reg.sortOf(mt.Key())
	it := st.newRef()
	kv, kc := e.keyIterV(ks), e.keyIterC()
	e.keyIterP(ks)
	e.heapSet(st, kv, sto(e.heapGet(st, st.heap, kv), it, fmt.Sprintf("((as const %s) false)", arr(ks, sBool))))
	e.heapSet(st, kc, sto(e.heapGet(st, st.heap, kc), it, bvLit(0, 64)))
	return &Val{T: it, S: sInt, Box: m, Typ: r.X.Type()}, nil
}

func (e *Engine) nextInstr(fr *Frame, st *State, n *ssa.Next) (*Val, error) {
	if n.IsString {
		return nil, fmt.Errorf("range over string not supported")
	}
	itv := e.operand(fr, st, n.Iter)
	if itv.Box == nil || itv.Typ == nil {
		return nil, fmt.Errorf("iterator of unknown origin")
	}
	mt := itv.Typ.Underlying().(*types.Map)
	m := itv.Box
	ks, vs := e.reg.sortOf(mt.Key()), e.reg.sortOf(mt.Elem())
	kv, kp, kc := e.keyIterV(ks), e.keyIterP(ks), e.keyIterC()
	hv, hp, hc := e.heapGet(st, st.heap, kv), e.heapGet(st, st.heap, kp), e.heapGet(st, st.heap, kc)
	visited := sel(hv, itv.T)
	pos := sel(hp, itv.T)
	cnt := sel(hc, itv.T)
	present := sel(e.heapGet(st, st.heap, e.keyMapP(ks, vs)), m.T)
	values := sel(e.heapGet(st, st.heap, e.keyMapV(ks, vs)), m.T)
	ok := st.fresh("next_ok", sBool)
	k0 := st.fresh("next_key", ks)
	st.assume(e.wfVal(st, k0, ks))
	// ok: an unvisited present key was picked; !ok: none is left
	st.assume("(=> " + ok + " (and (not (= " + m.T + " 0)) " + sel(present, k0) + " (not " + sel(visited, k0) + ")))")
	q := freshName("q_k")
	st.assume("(=> (not " + ok + ") (forall ((" + q + " " + ks + ")) (=> (and (not (= " + m.T + " 0)) " + sel(present, q) + ") " + sel(visited, q) + ")))")
	e.heapSet(st, kv, sto(hv, itv.T, ite(ok, sto(visited, k0, "true"), visited)))
	e.heapSet(st, kp, sto(hp, itv.T, ite(ok, sto(pos, k0, cnt), pos)))
	e.heapSet(st, kc, sto(hc, itv.T, ite(ok, "(bvadd "+cnt+" #x0000000000000001)", cnt)))
	st.assume("(bvslt " + cnt + " #x3fffffffffffff00)")
	val := st.fresh("next_val", vs)
	st.pc = append(st.pc, eq(val, sel(values, k0)))
	st.assume(e.wfVal(st, val, vs))
	tup := n.Type().(*types.Tuple)
	res := &Val{S: "TUPLE", Typ: n.Type(), Tup: []*Val{
		{T: ok, S: sBool, Typ: types.Typ[types.Bool]},
		{T: k0, S: ks, Typ: mt.Key()},
		{T: val, S: vs, Typ: mt.Elem()},
	}}
	_ = tup
	return res, nil
}

// iterGhost resolves $visited / $pos / $count for the (first) map iterator of the function.
func (c *EvalCtx) iterGhost(name string) *Val {
	if c.fr == nil {
		return nil
	}
	for _, b := range c.fr.fn.Blocks {
		for _, in := range b.Instrs {
			r, ok := in.(*ssa.Range)
			if !ok {
				continue
			}
			itv, ok := c.fr.env[r]
			if !ok || itv.Typ == nil {
				continue
			}
			mt, ok := itv.Typ.Underlying().(*types.Map)
			if !ok {
				continue
			}
			ks := c.e.reg.sortOf(mt.Key())
			switch name {
			case "$visited":
				return &Val{T: sel(c.e.heapGet(c.st, c.heap(), c.e.keyIterV(ks)), itv.T), S: arr(ks, sBool)}
			case "$pos":
				return &Val{T: sel(c.e.heapGet(c.st, c.heap(), c.e.keyIterP(ks)), itv.T), S: arr(ks, sBV64), Typ: types.NewArray(types.Typ[types.Int], 0)}
			case "$count":
				return &Val{T: sel(c.e.heapGet(c.st, c.heap(), c.e.keyIterC()), itv.T), S: sBV64, Typ: types.Typ[types.Int]}
			}
		}
	}
	return nil
}
