package main

import (
	"fmt"

	"golang.org/x/tools/go/ssa"
)

// Range/Next over maps and strings: not yet in the subset.
func (e *Engine) rangeInstr(fr *Frame, st *State, r *ssa.Range) (*Val, error) {
	return nil, fmt.Errorf("range over map/string not supported")
}

func (e *Engine) nextInstr(fr *Frame, st *State, n *ssa.Next) (*Val, error) {
	return nil, fmt.Errorf("next not supported")
}
