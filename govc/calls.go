package main

// Call handling: builtins, contracts, inlining, havoc.

import (
	"fmt"
	"go/token"
	"go/types"
	"os"
	"path"
	"sort"
	"strings"

	"golang.org/x/tools/go/ssa"
)

// lookup finds the contract for a key, preferring the variant written for the engine's mode
// (`opt mode=<m>` in the contract block; stored under key@m).
func (e *Engine) lookup(key string) *Contract {
	if e.mode != "" {
		if c, ok := e.specs.Contracts[key+"@"+e.mode]; ok {
			return c
		}
	}
	if c, ok := e.specs.Contracts[key]; ok {
		return c
	}
	return nil
}

func (e *Engine) contractFor(fn *ssa.Function) *Contract {
	return e.lookup(fn.String())
}

// ifaceKeys returns candidate contract keys for an interface method call.
func (e *Engine) ifaceKeys(c *ssa.CallCommon) []string {
	var keys []string
	add := func(t types.Type) {
		k := "(" + types.TypeString(t, nil) + ")." + c.Method.Name()
		for _, x := range keys {
			if x == k {
				return
			}
		}
		keys = append(keys, k)
	}
	add(c.Value.Type())
	if sig, ok := c.Method.Type().(*types.Signature); ok && sig.Recv() != nil {
		add(sig.Recv().Type())
	}
	// embedded interfaces: search named embedded interfaces that declare the method
	if it, ok := c.Value.Type().Underlying().(*types.Interface); ok {
		for i := 0; i < it.NumEmbeddeds(); i++ {
			et := it.EmbeddedType(i)
			if ei, ok := et.Underlying().(*types.Interface); ok {
				for j := 0; j < ei.NumMethods(); j++ {
					if ei.Method(j).Name() == c.Method.Name() {
						add(et)
					}
				}
			}
		}
	}
	return keys
}

func (e *Engine) isRepoFunc(fn *ssa.Function) bool {
	p := fn.Package()
	if p == nil && fn.Parent() != nil {
		p = fn.Parent().Package()
	}
	if p == nil && fn.Origin() != nil {
		p = fn.Origin().Package()
	}
	if p == nil {
		// wrappers / bound methods: look at the object package
		if fn.Object() != nil && fn.Object().Pkg() != nil {
			return strings.HasPrefix(fn.Object().Pkg().Path(), e.cfg.RepoPrefix)
		}
		return false
	}
	return strings.HasPrefix(p.Pkg.Path(), e.cfg.RepoPrefix)
}

func (e *Engine) noEffect(name string) bool {
	for _, p := range e.specs.HasEffect {
		if p == name {
			return false
		}
	}
	for _, p := range e.specs.NoEffect {
		if ok, _ := path.Match(p, name); ok {
			return true
		}
		if strings.HasSuffix(p, "*") && strings.HasPrefix(name, strings.TrimSuffix(p, "*")) {
			return true
		}
		if p == name {
			return true
		}
	}
	return false
}

// doCall dispatches a call. fnv is the evaluated function value / interface receiver when needed.
func (e *Engine) doCall(fr *Frame, st *State, c *ssa.CallCommon, fnv *Val, args []*Val, pos token.Pos, k func(*State, *Val)) {
	// builtins
	if b, ok := c.Value.(*ssa.Builtin); ok {
		v, err := e.builtin(fr, st, b, c, args, pos)
		if err != nil {
			e.errorf("%s: %v at %s", fr.fn, err, e.posStr(pos))
			return
		}
		k(st, v)
		return
	}
	sig := c.Signature()
	if c.IsInvoke() {
		recv := fnv
		e.safety(fr, st, "nil interface method call", not(e.isNilTerm(recv)), pos)
		if recv.Dyn != nil && recv.Box != nil {
			// dynamic type known: resolve the concrete method
			ms := e.prog.MethodSets.MethodSet(recv.Dyn)
			if sel := ms.Lookup(c.Method.Pkg(), c.Method.Name()); sel != nil {
				if fn := e.prog.MethodValue(sel); fn != nil {
					e.callFunction(fr, st, fn, nil, append([]*Val{recv.Box}, args...), pos, k)
					return
				}
			}
		}
		for _, key := range e.ifaceKeys(c) {
			if ct := e.lookup(key); ct != nil {
				e.applyContract(fr, st, ct, nil, sig, append([]*Val{recv}, args...), pos, k)
				return
			}
		}
		e.unknownCall(fr, st, e.ifaceKeys(c)[0], sig, append([]*Val{recv}, args...), pos, k)
		return
	}
	if fn := c.StaticCallee(); fn != nil {
		var binds []*Val
		if fnv != nil {
			binds = fnv.Bind
		}
		e.callFunction(fr, st, fn, binds, args, pos, k)
		return
	}
	// call through a function value
	if fnv != nil && fnv.Fn != nil {
		e.callFunction(fr, st, fnv.Fn, fnv.Bind, args, pos, k)
		return
	}
	// function-typed struct field with a field contract?
	if key := e.funcValueKey(c.Value); key != "" {
		if ct := e.lookup(key); ct != nil {
			e.safety(fr, st, "nil function call", not(eq(fnv.T, "nil_func")), pos)
			e.applyContract(fr, st, ct, nil, sig, args, pos, k)
			return
		}
		e.unknownCall(fr, st, key, sig, args, pos, k)
		return
	}
	if fr.depth == 0 && fr.fn == e.curFn && e.curC != nil {
		e.atCallChecks(fr, st, "$dynamic", args, pos) // `atcall $dynamic: ...`: a call through a function value
	}
	e.unknownCall(fr, st, "funcvalue:"+c.Value.Name(), sig, args, pos, k)
}

// funcValueKey names a call through a struct field: "field:<pkg.Type>.<Field>".
func (e *Engine) funcValueKey(v ssa.Value) string {
	switch x := v.(type) {
	case *ssa.UnOp:
		if fa, ok := x.X.(*ssa.FieldAddr); ok {
			st := fa.X.Type().Underlying().(*types.Pointer).Elem()
			return "field:" + types.TypeString(st, nil) + "." + st.Underlying().(*types.Struct).Field(fa.Field).Name()
		}
	case *ssa.Field:
		st := x.X.Type()
		return "field:" + types.TypeString(st, nil) + "." + st.Underlying().(*types.Struct).Field(x.Field).Name()
	case *ssa.Parameter:
		return "param:" + x.Parent().String() + "." + x.Name()
	}
	return ""
}

func (e *Engine) isNilTerm(v *Val) string {
	return eq(v.T, e.reg.zero(v.S))
}

func (e *Engine) callFunction(fr *Frame, st *State, fn *ssa.Function, binds []*Val, args []*Val, pos token.Pos, k func(*State, *Val)) {
	name := fn.String()
	if name == "github.com/cenkalti/backoff/v4.Retry" {
		if e.retryCall(fr, st, args, pos, k) {
			return
		}
	}
	if fr.depth == 0 && fr.fn == e.curFn && e.curC != nil {
		e.atCallChecks(fr, st, name, args, pos)
	}
	if h, ok := intrinsics[name]; ok {
		v, err := h(e, fr, st, args, pos)
		if err != nil {
			e.errorf("%s: %v at %s", fr.fn, err, e.posStr(pos))
			return
		}
		k(st, v)
		return
	}
	if name == "fmt.Errorf" && len(args) > 0 {
		// fmt.Errorf wraps an operand when its format has a %w verb: the result then inherits properties of that operand
		// (errors.Is / errors.As see through it).  A constant format without %w uses the plain contract, anything else the
		// contract variant "fmt.Errorf%w", which makes no claim about what the error is not.
		if f, ok := e.reg.litText(args[0].T); !ok || strings.Contains(f, "%w") {
			if alt := e.lookup("fmt.Errorf%w"); alt != nil {
				name = "fmt.Errorf%w"
			}
		}
	}
	if ct := e.lookup(name); ct != nil && ct.Opts["inline"] == "" { // also for a recursive call of the function under verification: its contract is the induction hypothesis
		k2 := k
		if (strings.HasSuffix(name, "Mutex).Lock") || strings.HasSuffix(name, "Mutex).RLock")) && len(args) > 0 && args[0].Sub != nil {
			k2 = func(st2 *State, res *Val) {
				e.acquireInterference(fr, st2, args[0])
				k(st2, res)
			}
		}
		var cfr *Frame
		if len(fn.FreeVars) > 0 && len(binds) == len(fn.FreeVars) {
			cfr = &Frame{fn: fn, env: map[ssa.Value]*Val{}}
			for i, fv := range fn.FreeVars {
				cfr.env[fv] = binds[i]
			}
			for i, p := range fn.Params {
				if i < len(args) {
					cfr.env[p] = args[i]
				}
			}
		}
		e.applyContractFr(fr, st, ct, fn, fn.Signature, args, cfr, pos, k2)
		return
	}
	if fn.Blocks != nil && (e.isRepoFunc(fn) || e.inlineWanted(name) || (fn.Synthetic != "" && strings.HasSuffix(name, "$bound"))) {
		if fr.depth >= e.cfg.MaxInline {
			e.errorf("%s: inlining depth exceeded at call to %s", fr.fn, name)
			return
		}
		e.inlinedUsed[name] = true
		e.inline(fr, st, fn, binds, args, pos, k)
		return
	}
	e.unknownCall(fr, st, name, fn.Signature, args, pos, k)
}

func (e *Engine) inlineWanted(name string) bool {
	if c := e.lookup(name); c != nil && c.Opts["inline"] != "" {
		return true
	}
	return false
}

func (e *Engine) inline(fr *Frame, st *State, fn *ssa.Function, binds []*Val, args []*Val, pos token.Pos, k func(*State, *Val)) {
	nf := &Frame{fn: fn, env: map[ssa.Value]*Val{}, active: map[*ssa.BasicBlock]bool{}, depth: fr.depth + 1}
	if len(args) != len(fn.Params) {
		e.errorf("%s: arity mismatch inlining %s", fr.fn, fn)
		return
	}
	for i, p := range fn.Params {
		nf.env[p] = args[i]
	}
	for i, fv := range fn.FreeVars {
		if i < len(binds) {
			nf.env[fv] = binds[i]
		} else {
			e.errorf("%s: closure %s called without bindings", fr.fn, fn)
			return
		}
	}
	st.trail = append(st.trail, "→"+fn.Name())
	e.execBlock(nf, st, fn.Blocks[0], func(st2 *State, rs []*Val) {
		st2.trail = append(st2.trail, "←"+fn.Name())
		k(st2, packResults(rs, fn.Signature))
	})
}

func packResults(rs []*Val, sig *types.Signature) *Val {
	switch len(rs) {
	case 0:
		return nil
	case 1:
		return rs[0]
	}
	return &Val{S: "TUPLE", Typ: sig.Results(), Tup: rs}
}

// unknownCall: a call with neither contract nor inlinable body.
func (e *Engine) unknownCall(fr *Frame, st *State, name string, sig *types.Signature, args []*Val, pos token.Pos, k func(*State, *Val)) {
	e.uncontracted[name]++
	if !e.noEffect(name) {
		// conservative: anything reachable from reference-like arguments may change
		refy := false
		for _, a := range args {
			switch a.S {
			case sInt, sIface, sSlice:
				refy = true
			}
		}
		if refy {
			e.havocAllHeap(st)
			st.notes = append(st.notes, "heap havocked by uncontracted call "+name)
		}
	}
	k(st, e.havocResults(st, name, sig))
}

func (e *Engine) havocResults(st *State, name string, sig *types.Signature) *Val {
	var rs []*Val
	for i := 0; i < sig.Results().Len(); i++ {
		t := sig.Results().At(i).Type()
		so := e.reg.sortOf(t)
		v := &Val{T: st.fresh("r_"+shortName(name), so), S: so, Typ: t}
		st.assume(e.wfVal(st, v.T, so))
		rs = append(rs, v)
	}
	return packResults(rs, sig)
}

func shortName(n string) string {
	if i := strings.LastIndex(n, "/"); i >= 0 {
		n = n[i+1:]
	}
	return n
}

// applyContract uses a callee's contract at a call site.
func (e *Engine) applyContract(fr *Frame, st *State, ct *Contract, fn *ssa.Function, sig *types.Signature, args []*Val, pos token.Pos, k func(*State, *Val)) {
	e.applyContractFr(fr, st, ct, fn, sig, args, nil, pos, k)
}

// applyContractFr: cfr, when non-nil, is a pseudo-frame of the callee used to resolve names of its free
// variables (closures called through a known function value).
func (e *Engine) applyContractFr(fr *Frame, st *State, ct *Contract, fn *ssa.Function, sig *types.Signature, args []*Val, cfr *Frame, pos token.Pos, k func(*State, *Val)) {
	if ct.Assumed {
		e.assumedUsed[ct.Key] = true
	}
	vars := map[string]*Val{}
	pnames := ct.Params
	if len(pnames) == 0 && fn != nil {
		for _, p := range fn.Params {
			pnames = append(pnames, p.Name())
		}
	}
	if len(pnames) != len(args) {
		e.errorf("%s: contract %s names %d parameters, call has %d", fr.fn, ct.Key, len(pnames), len(args))
		return
	}
	for i, n := range pnames {
		vars[n] = args[i]
	}
	pre := st.snapshot()
	ctx := &EvalCtx{e: e, st: st, old: pre, vars: vars, c: ct, pkg: e.pkgOfContract(ct, fn), assume: true, fr: cfr}
	// preconditions are obligations of the caller
	for _, rq := range ct.Requires {
		ctx.assume = false
		v, err := ctx.eval(rq.E)
		if err != nil {
			e.errorf("%s: evaluating requires of %s: %v", fr.fn, ct.Key, err)
			return
		}
		goal := v.T
		// a known finding on panic-freedom of the function under verification also covers the preconditions of library
		// functions that are documented to panic (they are the same class of obligation: "this call cannot panic")
		if ct.Assumed && fr.depth == 0 && fr.fn == e.curFn {
			for _, kf := range e.known {
				if kf.Obligation != "safety" || !strings.HasSuffix(fr.fn.String(), kf.Function) {
					continue
				}
				rx, err := parseExpr(kf.Region)
				if err != nil {
					continue
				}
				rv, err := e.loopCtx(fr, st, nil, false).evalAs(rx, sBool)
				if err != nil {
					e.errorf("known finding safety region: %v", err)
					continue
				}
				e.addObligation(st, fr, "known-inside", []string{"safety"}, ct.Key+": requires "+rq.Src, kf.Region, "(=> "+rv.T+" "+v.T+")", nil)
				goal = or(rv.T, goal)
			}
		}
		po := e.addObligation(st, fr, "callee-precondition", append([]string{"pre"}, rq.Tags...), ct.Key+": requires "+rq.Src, e.posStr(pos), goal, e.topProbes(st))
		po.Prefer = e.topPrefers(st)
		st.assume(v.T)
	}
	// havoc what the callee may modify
	if err := e.havocModifies(st, ctx, append(append([]string{}, ct.Modifies...), ct.GhostMod...)); err != nil {
		e.errorf("%s: modifies of %s: %v", fr.fn, ct.Key, err)
		return
	}
	// results
	var rs []*Val
	rnames := ct.Results
	if len(rnames) == 0 && sig != nil {
		for i := 0; i < sig.Results().Len(); i++ {
			n := sig.Results().At(i).Name()
			if n == "" {
				n = fmt.Sprintf("result%d", i)
			}
			rnames = append(rnames, n)
		}
	}
	for i := 0; i < sig.Results().Len(); i++ {
		t := sig.Results().At(i).Type()
		so := e.reg.sortOf(t)
		v := &Val{T: st.fresh("r_"+shortName(ct.Key), so), S: so, Typ: t}
		rs = append(rs, v)
		if i < len(rnames) {
			vars[rnames[i]] = v
			if b := ct.Opts["borrowed"]; b != "" && b == rnames[i] {
				v.Borrowed = shortName(ct.Key)
			}
		}
	}
	ctx.assume = true
	for _, en := range ct.Ensures {
		v, err := ctx.eval(en.E)
		if err != nil {
			e.errorf("%s: evaluating ensures of %s (%s): %v", fr.fn, ct.Key, en.Src, err)
			return
		}
		if v.T == "false" && ct.Assumed {
			// the callee never returns (e.g. klog.Exitf -> os.Exit): the path ends here, nothing is explored after it
			return
		}
		st.assume(v.T)
	}
	// fmt.Errorf with a constant format that has no %w returns a plain error: status.Code of it is Unknown
	if ct.Key == "fmt.Errorf" && len(args) > 0 && len(rs) == 1 {
		for lit, name := range e.reg.strLits {
			if name == args[0].T && !strings.Contains(lit, "%w") {
				st.assume("(= (code " + rs[0].T + ") #x00000002)")
			}
		}
	}
	// well-formedness of results (after `fresh` allocations made by the ensures clauses)
	for _, v := range rs {
		st.assume(e.wfVal(st, v.T, v.S))
	}
	if ct.Assumed {
		e.crashCheck(fr, st, "after "+shortName(ct.Key)+" at "+e.posStr(pos))
	}
	k(st, packResults(rs, sig))
}

func (e *Engine) pkgOfContract(ct *Contract, fn *ssa.Function) *ssa.Package {
	if fn != nil {
		if fn.Package() != nil {
			return fn.Package()
		}
		if fn.Parent() != nil {
			return fn.Parent().Package()
		}
	}
	// derive from the key: (path.Type).M or path.F
	k := strings.TrimPrefix(strings.TrimPrefix(ct.Key, "("), "*")
	if strings.HasPrefix(k, "field:") {
		k = k[6:]
	}
	if i := strings.LastIndex(k, "/"); i >= 0 {
		rest := k[i+1:]
		if j := strings.Index(rest, "."); j >= 0 {
			return e.pkgs[k[:i+1+j]]
		}
	} else if j := strings.Index(k, "."); j >= 0 {
		return e.pkgs[k[:j]]
	}
	return nil
}

// havocModifies havocs ghost variables and heap designators.
// modTargets resolves modifies designators:
//
//	ghostName | heap | key:<K> | *ptrExpr | mapof(expr) | elems(expr) | expr.field
//
// into ghost names, heap keys (coarse: the whole array of that kind) and precise cells.
type modTargets struct {
	ghosts []string
	keys   []string
	all    bool
	cells  []*Val // pointer values whose pointee is modified (precise)
	fobjs  []fobj // single fields of single objects (precise)
}

// fobj: the entry `base` of heap kind `key` (one field of one object, or one pointer cell).
type fobj struct{ key, base string }

// cellObjs lists the (heap kind, object) entries that a store through pointer p (pointee type t) writes: what a
// `modifies *p` designator allows, on both sides of a call.
func (e *Engine) cellObjs(st *State, p *Val, t types.Type) []fobj {
	if p.Addr != nil {
		if p.Addr.Kind == "field" {
			return []fobj{{p.Addr.Key, p.Addr.Base}}
		}
		return nil // element addresses etc.: kind-wide (see callers)
	}
	var out []fobj
	var rec func(ref string, t types.Type)
	rec = func(ref string, t types.Type) {
		if _, ok := t.Underlying().(*types.Struct); !ok {
			out = append(out, fobj{e.keyCell(e.reg.sortOf(t)), ref})
			return
		}
		ss := e.reg.structSort(t)
		info := e.reg.structs[ss]
		for i := range info.Fields {
			if _, nested := info.FTypes[i].Underlying().(*types.Struct); nested {
				rec(e.fieldRef(st, ref, i), info.FTypes[i])
				continue
			}
			out = append(out, fobj{e.keyField(ss, i), ref})
		}
	}
	rec(p.T, t)
	return out
}

func (e *Engine) resolveMods(ctx *EvalCtx, mods []string) (*modTargets, error) {
	mt := &modTargets{}
	for _, m := range mods {
		m = strings.TrimSpace(m)
		if m == "" {
			continue
		}
		if _, ok := e.specs.Ghosts[m]; ok {
			mt.ghosts = append(mt.ghosts, m)
			continue
		}
		if m == "heap" {
			mt.all = true
			continue
		}
		if m == "globals" {
			// every package-level variable (but no object on the heap): what an initialiser run through sync.Once may assign
			var gk []string
			for k := range e.hsorts {
				if strings.HasPrefix(k, "G|") && !e.isSentinelKey(k) {
					gk = append(gk, k)
				}
			}
			sort.Strings(gk)
			mt.keys = append(mt.keys, gk...)
			continue
		}
		if strings.HasPrefix(m, "key:") {
			mt.keys = append(mt.keys, m[4:])
			continue
		}
		if strings.HasPrefix(m, "*") {
			ex, err := parseExpr(m[1:])
			if err != nil {
				return nil, err
			}
			p, err := ctx.eval(ex)
			if err != nil {
				return nil, err
			}
			if p.Typ == nil {
				return nil, fmt.Errorf("modifies %s: untyped", m)
			}
			if _, ok := p.Typ.Underlying().(*types.Pointer); !ok {
				return nil, fmt.Errorf("modifies %s: not a pointer", m)
			}
			mt.cells = append(mt.cells, p)
			continue
		}
		ex, err := parseExpr(m)
		if err != nil {
			return nil, fmt.Errorf("modifies designator %q: %v", m, err)
		}
		switch {
		case ex.Op == "ident" && ctx.pkg != nil && ctx.pkg.Members[ex.S] != nil:
			g, ok := ctx.pkg.Members[ex.S].(*ssa.Global)
			if !ok {
				return nil, fmt.Errorf("modifies %s: not a package-level variable", m)
			}
			mt.keys = append(mt.keys, e.keyGlobal(g))
		case ex.Op == "call" && (ex.S == "mapof" || ex.S == "elems") && len(ex.Args) == 1:
			v, err := ctx.eval(ex.Args[0])
			if err != nil {
				return nil, err
			}
			if v.Typ == nil {
				return nil, fmt.Errorf("modifies %s: untyped", m)
			}
			switch u := v.Typ.Underlying().(type) {
			case *types.Map:
				ks, vs := e.reg.sortOf(u.Key()), e.reg.sortOf(u.Elem())
				mt.keys = append(mt.keys, e.keyMapP(ks, vs), e.keyMapV(ks, vs))
			case *types.Slice:
				mt.keys = append(mt.keys, e.keyElem(e.reg.sortOf(u.Elem())))
			default:
				return nil, fmt.Errorf("modifies %s: not a map or slice", m)
			}
		case ex.Op == "field":
			b, err := ctx.eval(ex.Args[0])
			if err != nil {
				return nil, err
			}
			pt, ok := b.Typ.Underlying().(*types.Pointer)
			if !ok {
				return nil, fmt.Errorf("modifies %s: base is not a pointer", m)
			}
			stt, ok := pt.Elem().Underlying().(*types.Struct)
			if !ok {
				return nil, fmt.Errorf("modifies %s: base is not a pointer to struct", m)
			}
			ss := e.reg.structSort(pt.Elem())
			found := false
			for i := 0; i < stt.NumFields(); i++ {
				if stt.Field(i).Name() == ex.S {
					found = true
					if _, nested := stt.Field(i).Type().Underlying().(*types.Struct); nested {
						ks := map[string]bool{}
						e.allocKeys(stt.Field(i).Type(), ks)
						for k := range ks {
							mt.keys = append(mt.keys, k)
						}
					} else {
						mt.fobjs = append(mt.fobjs, fobj{e.keyField(ss, i), b.T})
					}
				}
			}
			if !found {
				return nil, fmt.Errorf("modifies %s: no such field", m)
			}
		default:
			return nil, fmt.Errorf("unknown modifies designator %q", m)
		}
	}
	return mt, nil
}

// havocModifies havocs ghost variables and heap designators at a call site.
func (e *Engine) havocModifies(st *State, ctx *EvalCtx, mods []string) error {
	mt, err := e.resolveMods(ctx, mods)
	if err != nil {
		return err
	}
	for _, g := range mt.ghosts {
		st.ghost[g] = st.fresh("g_"+g, e.ghostSort(g))
		for fk := range st.facts {
			if strings.HasPrefix(fk, "GHOST:"+g+"@") {
				delete(st.facts, fk)
			}
		}
	}
	if mt.all {
		e.havocAllHeap(st)
	}
	for _, k := range mt.keys {
		if _, ok := e.hsorts[k]; ok {
			e.heapHavoc(st, k)
		}
	}
	for _, fo := range mt.fobjs {
		// one field of one object: only that entry becomes arbitrary
		hs := e.heapSort(fo.key)
		es := strings.TrimSuffix(strings.TrimPrefix(hs, "(Array Int "), ")")
		nv := st.fresh("fld", es)
		st.assume(e.wfVal(st, nv, es))
		e.heapSet(st, fo.key, sto(e.heapGet(st, st.heap, fo.key), fo.base, nv))
		delete(st.facts, fo.key+"@"+fo.base)
	}
	for _, p := range mt.cells {
		pt := p.Typ.Underlying().(*types.Pointer)
		so := e.reg.sortOf(pt.Elem())
		nv := &Val{T: st.fresh("out", so), S: so, Typ: pt.Elem()}
		st.assume(e.wfVal(st, nv.T, so))
		if err := e.store(st, p, pt.Elem(), nv); err != nil {
			return err
		}
	}
	return nil
}

// ---------------------------------------------------------------- builtins

func (e *Engine) builtin(fr *Frame, st *State, b *ssa.Builtin, c *ssa.CallCommon, args []*Val, pos token.Pos) (*Val, error) {
	switch b.Name() {
	case "len", "cap":
		x := args[0]
		r := &Val{S: sBV64, Typ: types.Typ[types.Int]}
		switch x.S {
		case sStr:
			r.T = "(slen " + x.T + ")"
		case sBytes:
			r.T = "(slen (b_str " + x.T + "))"
			if b.Name() == "cap" {
				r.T = st.fresh("cap", sBV64)
				st.assume("(bvsge " + r.T + " (slen (b_str " + x.T + ")))")
			}
		case sSlice:
			if b.Name() == "len" {
				r.T = "(s_len " + x.T + ")"
			} else {
				r.T = "(s_cap " + x.T + ")"
			}
		case sInt:
			if mt, ok := c.Args[0].Type().Underlying().(*types.Map); ok {
				_ = mt
				e.guardCheck(fr, st, x, false, pos)
				r.T = st.fresh("maplen", sBV64)
				st.assume("(bvsge " + r.T + " #x0000000000000000)")
				return r, nil
			}
			if pt, ok := c.Args[0].Type().Underlying().(*types.Pointer); ok {
				if at, ok := pt.Elem().Underlying().(*types.Array); ok {
					r.T = bvLit(uint64(at.Len()), 64)
					return r, nil
				}
			}
			return nil, fmt.Errorf("len of %s", c.Args[0].Type())
		default:
			if at, ok := c.Args[0].Type().Underlying().(*types.Array); ok {
				r.T = bvLit(uint64(at.Len()), 64)
				return r, nil
			}
			return nil, fmt.Errorf("len of sort %s", x.S)
		}
		return r, nil
	case "append":
		x, y := args[0], args[1]
		e.borrowCheck(fr, st, y, "appended to a slice", pos)
		if x.S == sBytes && x.Shared != "" && x.NotShrunk != "" && fr.fn != nil {
			// append(shared[:k], ...) with k < len(shared) writes into the bytes that the other holders of that array still
			// read: an aliasing obligation (the value model of []byte would otherwise hide the overwrite)
			e.addObligation(st, fr, "aliased-write", []string{"alias"}, "append to a re-sliced []byte overwrites "+x.Shared+" (the re-slice must keep the full length)", e.posStr(pos), x.NotShrunk, nil)
		}
		if x.S == sBytes {
			// []byte append: concatenation (y may be Bytes or Str)
			ys := y.T
			if y.S == sBytes {
				ys = "(b_str " + y.T + ")"
			}
			cat := st.fresh("app", sStr)
			st.pc = append(st.pc, eq(cat, "(scat (b_str "+x.T+") "+ys+")"))
			st.assume(eq("(slen "+cat+")", "(bvadd (slen (b_str "+x.T+")) (slen "+ys+"))"))
			nilr := and("(b_nil "+x.T+")", eq("(slen "+ys+")", "#x0000000000000000"))
			return &Val{T: "(mkBytes " + nilr + " " + cat + ")", S: sBytes, Typ: c.Args[0].Type()}, nil
		}
		if x.S != sSlice {
			return nil, fmt.Errorf("append to %s", x.S)
		}
		es := e.reg.sortOf(c.Args[0].Type().Underlying().(*types.Slice).Elem())
		key := e.keyElem(es)
		h := e.heapGet(st, st.heap, key)
		// only the single-element varargs form `append(s, v)` is modelled: y is a 1-element slice built from a fresh array
		ylen := "(s_len " + y.T + ")"
		// model: fresh backing = copy of old backing with y's elements written after len(x). Supported for literal lengths 0 and 1.
		n, ok := e.constLen(y)
		if !ok || n > 4 {
			// append(x, y...) with a symbolic number of elements: the result's backing array is a fresh row that agrees with
			// x's row outside [len(x), len(x)+len(y)) and with y's elements inside (two quantified path facts)
			ref := st.newRef()
			row := sel(h, "(s_ref "+x.T+")")
			yrow := sel(h, "(s_ref "+y.T+")")
			base := "(bvadd (s_off " + x.T + ") (s_len " + x.T + "))"
			nr := st.fresh("approw", arr(sBV64, es))
			q1 := "(forall ((qj (_ BitVec 64))) (=> (and (bvsle #x0000000000000000 qj) (bvslt qj " + ylen + ")) (= (select " + nr + " (bvadd " + base + " qj)) (select " + yrow + " (bvadd (s_off " + y.T + ") qj)))))"
			q2 := "(forall ((qi (_ BitVec 64))) (=> (or (bvslt qi " + base + ") (bvsge qi (bvadd " + base + " " + ylen + "))) (= (select " + nr + " qi) (select " + row + " qi))))"
			st.assume("(bvslt (s_len " + x.T + ") #x3fffffffffffff00)")
			st.assume("(bvslt " + ylen + " #x3fffffffffffff00)")
			st.assume(q1)
			st.assume(q2)
			e.heapSet(st, key, sto(h, ref, nr))
			nl := "(bvadd (s_len " + x.T + ") " + ylen + ")"
			nc := st.fresh("newcap", sBV64)
			st.assume(and("(bvsge "+nc+" "+nl+")", "(bvslt "+nc+" #x7fffffffffffff00)"))
			res := st.define("appended", sSlice, fmt.Sprintf("(mkSlice %s (s_off %s) %s %s)", ref, x.T, nl, nc))
			return &Val{T: res, S: sSlice, Typ: c.Args[0].Type()}, nil
		}
		_ = ylen
		ref := st.newRef()
		row := sel(h, "(s_ref "+x.T+")")
		base := "(bvadd (s_off " + x.T + ") (s_len " + x.T + "))"
		yrow := sel(h, "(s_ref "+y.T+")")
		for i := 0; i < n; i++ {
			yi := sel(yrow, "(bvadd (s_off "+y.T+") "+bvLit(uint64(i), 64)+")")
			row = sto(row, "(bvadd "+base+" "+bvLit(uint64(i), 64)+")", yi)
			// carry executor-level facts
			if f, ok := st.facts[key+"@(s_ref "+y.T+")@"+bvLit(uint64(i), 64)]; ok {
				_ = f
			}
		}
		e.heapSet(st, key, sto(h, ref, row))
		nl := "(bvadd (s_len " + x.T + ") " + bvLit(uint64(n), 64) + ")"
		nc := st.fresh("newcap", sBV64)
		st.assume(and("(bvsge "+nc+" "+nl+")", "(bvslt "+nc+" #x4000000000000000)"))
		st.assume("(bvslt (s_len " + x.T + ") #x3fffffffffffff00)")
		res := st.define("appended", sSlice, fmt.Sprintf("(mkSlice %s (s_off %s) %s %s)", ref, x.T, nl, nc))
		return &Val{T: res, S: sSlice, Typ: c.Args[0].Type()}, nil
	case "copy":
		// copy never panics; it returns min(len(dst), len(src)).  The destination's new content is not modelled:
		// a []byte destination is an immutable value in this model (its later reads see unconstrained bytes only if
		// it is re-created from its array), any other element kind is havocked.
		dst, src := args[0], args[1]
		if dst.S == sBytes && dst.Shared != "" {
			// copy into bytes that other code can reach: they change under the other holders (invisible in the value model)
			e.addObligation(st, fr, "aliased-write", []string{"alias"}, "copy into "+dst.Shared+" overwrites bytes that other holders of that memory still read", e.posStr(pos), eq("(slen (b_str "+dst.T+"))", "#x0000000000000000"), nil)
		}
		ln := func(v *Val) string {
			switch v.S {
			case sBytes:
				return "(slen (b_str " + v.T + "))"
			case sStr:
				return "(slen " + v.T + ")"
			case sSlice:
				return "(s_len " + v.T + ")"
			}
			return "#x0000000000000000"
		}
		n := st.fresh("copied", sBV64)
		st.assume(eq(n, ite("(bvslt "+ln(dst)+" "+ln(src)+")", ln(dst), ln(src))))
		if dst.S == sSlice {
			es := e.reg.sortOf(c.Args[0].Type().Underlying().(*types.Slice).Elem())
			e.heapHavoc(st, e.keyElem(es))
		} else {
			e.warnf("%s: copy into a []byte at %s: destination content not modelled", fr.fn, e.posStr(pos))
		}
		return &Val{T: n, S: sBV64, Typ: types.Typ[types.Int]}, nil
	case "delete":
		if len(args) == 2 {
			if mt, ok := c.Args[0].Type().Underlying().(*types.Map); ok {
				m, k := args[0], args[1]
				e.guardCheck(fr, st, m, true, pos)
				ks, vs := e.reg.sortOf(mt.Key()), e.reg.sortOf(mt.Elem())
				kp := e.keyMapP(ks, vs)
				hp := e.heapGet(st, st.heap, kp)
				// delete on a nil map is a no-op; the store at reference 0 is harmless (nothing reads presence of the nil map)
				e.heapSet(st, kp, sto(hp, m.T, sto(sel(hp, m.T), k.T, "false")))
				return nil, nil
			}
		}
		return nil, fmt.Errorf("builtin delete (outside subset)")
	case "print", "println":
		return nil, nil
	case "min", "max":
		// integer operands only (the result type says whether the comparison is signed)
		if len(args) >= 1 && bvWidth(args[0].S) > 0 {
			signed := true
			if bt, ok := c.Args[0].Type().Underlying().(*types.Basic); ok && bt.Info()&types.IsUnsigned != 0 {
				signed = false
			}
			lt := "bvslt"
			if !signed {
				lt = "bvult"
			}
			acc := args[0].T
			for _, a := range args[1:] {
				if b.Name() == "min" {
					acc = ite("("+lt+" "+a.T+" "+acc+")", a.T, acc)
				} else {
					acc = ite("("+lt+" "+acc+" "+a.T+")", a.T, acc)
				}
			}
			return &Val{T: acc, S: args[0].S, Typ: c.Args[0].Type()}, nil
		}
		return nil, fmt.Errorf("builtin %s on non-integer operands unsupported", b.Name())
	}
	return nil, fmt.Errorf("unsupported builtin %s", b.Name())
}

// constLen: slices built as `slice arr[:]` from `new [n]T` carry their constant length.
func (e *Engine) constLen(v *Val) (int, bool) {
	return v.CLen, v.HasCLen
}

// ---------------------------------------------------------------- intrinsics (semantics fixed by the Go spec / trivially by the library)

type intrinsic func(e *Engine, fr *Frame, st *State, args []*Val, pos token.Pos) (*Val, error)

var intrinsics = map[string]intrinsic{
	// reflect.DeepEqual on two values of the same struct type whose fields are scalars, strings or []byte:
	// structural equality, with nil and empty []byte distinguished (as DeepEqual does).
	"reflect.DeepEqual": func(e *Engine, fr *Frame, st *State, args []*Val, pos token.Pos) (*Val, error) {
		a, b := args[0], args[1]
		if a.Dyn != nil && b.Dyn != nil && a.Box != nil && b.Box != nil && types.Identical(a.Dyn, b.Dyn) && e.flatComparable(a.Box.S) {
			return &Val{T: eq(a.Box.T, b.Box.T), S: sBool, Typ: types.Typ[types.Bool]}, nil
		}
		e.warnf("%s: reflect.DeepEqual on values of unknown or unsupported dynamic type: opaque result", fr.fn)
		return &Val{T: st.fresh("deepequal", sBool), S: sBool, Typ: types.Typ[types.Bool]}, nil
	},
}

func init() {
	intrinsics["fmt.Sprintf"] = sprintfIntrinsic
	intrinsics["(*strings.Builder).WriteString"] = func(e *Engine, fr *Frame, st *State, args []*Val, pos token.Pos) (*Val, error) {
		return e.builderAppend(fr, st, args[0], args[1].T, pos)
	}
	intrinsics["(*strings.Builder).WriteRune"] = func(e *Engine, fr *Frame, st *State, args []*Val, pos token.Pos) (*Val, error) {
		// only constant ASCII runes are rendered; anything else appends an opaque string
		piece := st.fresh("rune", sStr)
		if strings.HasPrefix(args[1].T, "#x") {
			var r uint64
			fmt.Sscanf(args[1].T[2:], "%x", &r)
			if r < 128 {
				piece = e.reg.strLit(string(rune(r)))
			}
		}
		return e.builderAppend(fr, st, args[0], piece, pos)
	}
	intrinsics["(*strings.Builder).String"] = func(e *Engine, fr *Frame, st *State, args []*Val, pos token.Pos) (*Val, error) {
		return &Val{T: e.builderContent(st, args[0]), S: sStr, Typ: types.Typ[types.String]}, nil
	}
}

// strings.Builder: its content is the ghost map sb_val[ref]; the executor also remembers the content term of each
// builder it has seen on this path, so that successive writes stay in the canonical concatenation form.
func (e *Engine) builderContent(st *State, b *Val) string {
	if f, ok := st.facts["GHOST:sb_val@"+b.T]; ok {
		return f.T
	}
	return sel(e.ghostGet(st, st.ghost, "sb_val"), b.T)
}

func (e *Engine) builderAppend(fr *Frame, st *State, b *Val, piece string, pos token.Pos) (*Val, error) {
	if _, ok := e.specs.Ghosts["sb_val"]; !ok {
		return nil, fmt.Errorf("strings.Builder used but ghost sb_val is not declared")
	}
	e.safety(fr, st, "nil dereference", not(eq(b.T, "0")), pos)
	nt := e.strCat(st, e.builderContent(st, b), piece)
	st.ghost["sb_val"] = sto(e.ghostGet(st, st.ghost, "sb_val"), b.T, nt)
	st.facts["GHOST:sb_val@"+b.T] = &Val{T: nt, S: sStr}
	n := &Val{T: st.fresh("written", sBV64), S: sBV64, Typ: types.Typ[types.Int]}
	return &Val{S: "TUPLE", Tup: []*Val{n, {T: "nil_err", S: sErr}}}, nil
}

// retryCall models github.com/cenkalti/backoff/v4.Retry(op, b) for an operation that is a known closure with a
// contract: any number of earlier attempts (everything op may modify is havocked), then one final attempt whose
// outcome decides the result (nil iff that attempt returned nil).  Safety only: that the loop ends is assumed.
func (e *Engine) retryCall(fr *Frame, st *State, args []*Val, pos token.Pos, k func(*State, *Val)) bool {
	if len(args) < 1 || args[0].Fn == nil {
		return false
	}
	op := args[0].Fn
	ct := e.lookup(op.String())
	if ct == nil {
		return false
	}
	cfr := &Frame{fn: op, env: map[ssa.Value]*Val{}}
	for i, fv := range op.FreeVars {
		if i < len(args[0].Bind) {
			cfr.env[fv] = args[0].Bind[i]
		}
	}
	vars := map[string]*Val{}
	ctx := &EvalCtx{e: e, st: st, old: st.snapshot(), vars: vars, c: ct, pkg: e.pkgOfContract(ct, op), assume: true, fr: cfr}
	if err := e.havocModifies(st, ctx, ct.Modifies); err != nil {
		e.errorf("%s: backoff.Retry: %v", fr.fn, err)
		return true
	}
	st.trail = append(st.trail, "retry:last-attempt")
	e.applyContractFr(fr, st, ct, op, op.Signature, nil, cfr, pos, func(st2 *State, res *Val) {
		r := &Val{T: st2.fresh("retry_err", sErr), S: sErr, Typ: res.Typ}
		st2.assume(eq(eq(r.T, "nil_err"), eq(res.T, "nil_err")))
		k(st2, r)
	})
	return true
}

// sprintfIntrinsic expands fmt.Sprintf with a constant format whose verbs are %s (string operand), %d / %03d
// (integer operand) into a concatenation of literal pieces and fmt_d/fmt_du/fmt_03d atoms; anything else is opaque.
func sprintfIntrinsic(e *Engine, fr *Frame, st *State, args []*Val, pos token.Pos) (*Val, error) {
	opaque := func(why string) (*Val, error) {
		e.warnf("%s: fmt.Sprintf at %s modelled as an opaque string (%s)", fr.fn, e.posStr(pos), why)
		v := &Val{T: st.fresh("sprintf", sStr), S: sStr, Typ: types.Typ[types.String]}
		st.assume(e.wfVal(st, v.T, sStr))
		return v, nil
	}
	format := ""
	found := false
	for lit, name := range e.reg.strLits {
		if name == args[0].T {
			format, found = lit, true
		}
	}
	if args[0].T == "empty_str" {
		found = true
	}
	if !found {
		return opaque("format is not a constant")
	}
	// operands: elements of the varargs slice, recovered through executor-level facts
	var ops []*Val
	if len(args) > 1 && args[1].HasCLen {
		key := e.keyElem(sIface)
		ref := ""
		fmt.Sscanf(args[1].T, "(mkSlice %s", &ref)
		// the ref may itself contain spaces, e.g. "(- 3)"
		if strings.HasPrefix(args[1].T, "(mkSlice (") {
			end := strings.Index(args[1].T[9:], ")")
			ref = args[1].T[9 : 9+end+1]
		}
		for i := 0; i < args[1].CLen; i++ {
			f, ok := st.facts[key+"@"+ref+"@"+bvLit(uint64(i), 64)]
			if !ok || f.Box == nil {
				return opaque("operand not traceable")
			}
			ops = append(ops, f)
		}
	}
	res := "empty_str"
	lit := ""
	flush := func() {
		if lit != "" {
			res = e.strCat(st, res, e.reg.strLit(lit))
			lit = ""
		}
	}
	oi := 0
	for i := 0; i < len(format); i++ {
		c := format[i]
		if c != '%' {
			lit += format[i : i+1]
			continue
		}
		if i+1 < len(format) && format[i+1] == '%' {
			lit += "%"
			i++
			continue
		}
		verb := ""
		switch {
		case strings.HasPrefix(format[i:], "%s"):
			verb = "%s"
		case strings.HasPrefix(format[i:], "%d"):
			verb = "%d"
		case strings.HasPrefix(format[i:], "%03d"):
			verb = "%03d"
		default:
			return opaque("unsupported verb in " + strconvQuote(format))
		}
		if oi >= len(ops) {
			return opaque("too few operands")
		}
		op := ops[oi]
		oi++
		flush()
		switch verb {
		case "%s":
			if op.Box.S != sStr {
				return opaque("%s operand is not a string")
			}
			res = e.strCat(st, res, op.Box.T)
		case "%d", "%03d":
			if bvWidth(op.Box.S) == 0 {
				return opaque("%d operand is not an integer")
			}
			x := e.toBV64(op.Box, op.Dyn)
			f := "fmt_du"
			if isSigned(op.Dyn) {
				f = "fmt_d"
			}
			if verb == "%03d" {
				f = "fmt_03d"
			}
			res = e.strCat(st, res, "("+f+" "+x+")")
		}
		i += len(verb) - 1
	}
	flush()
	if oi != len(ops) {
		return opaque("operand count mismatch")
	}
	return &Val{T: res, S: sStr, Typ: types.Typ[types.String]}, nil
}

func strconvQuote(s string) string { return fmt.Sprintf("%q", s) }

// flatComparable: sorts on which SMT equality coincides with reflect.DeepEqual.
func (e *Engine) flatComparable(s string) bool {
	switch s {
	case sBool, sStr, sBytes:
		return true
	}
	if bvWidth(s) > 0 {
		return true
	}
	if info, ok := e.reg.structs[s]; ok {
		for _, f := range info.FSorts {
			if !e.flatComparable(f) {
				return false
			}
		}
		return true
	}
	return false
}

// acquireInterference: acquiring the mutex that guards a field is an interference point -- while the lock was
// not held, other threads may have changed the guarded data arbitrarily.  The guarded map's content is
// havocked and (if the rule names snapshot ghosts) its state right after the acquisition is recorded.
func (e *Engine) acquireInterference(fr *Frame, st *State, mu *Val) {
	for _, g := range e.specs.Guards {
		ss, ok := e.reg.byType[g.Struct]
		if !ok || ss != mu.Sub.Struct {
			continue
		}
		info := e.reg.structs[ss]
		fi := -1
		for i, f := range info.Fields {
			if f == g.Field && info.Fields[mu.Sub.Field] == g.Mutex {
				fi = i
			}
		}
		if fi < 0 {
			continue
		}
		mt, ok := info.FTypes[fi].Underlying().(*types.Map)
		if !ok {
			e.errorf("guarded field %s.%s is not a map: interference on acquisition is not modelled", g.Struct, g.Field)
			continue
		}
		ks, vs := e.reg.sortOf(mt.Key()), e.reg.sortOf(mt.Elem())
		kp, kv := e.keyMapP(ks, vs), e.keyMapV(ks, vs)
		mref := sel(e.heapGet(st, st.heap, e.keyField(ss, fi)), mu.Sub.Base)
		// only this map's row changes
		hp, hv := e.heapGet(st, st.heap, kp), e.heapGet(st, st.heap, kv)
		np := st.fresh("acq_has", arr(ks, sBool))
		nv := st.fresh("acq_val", arr(ks, vs))
		e.heapSet(st, kp, sto(hp, mref, np))
		e.heapSet(st, kv, sto(hv, mref, nv))
		if len(g.Snap) == 2 {
			st.ghost[g.Snap[0]] = np
			st.ghost[g.Snap[1]] = nv
		}
		st.trail = append(st.trail, "acquire:"+g.Mutex)
	}
}

// borrowCheck: a slice borrowed from a callee (e.g. the line returned by bufio.Reader.ReadLine, which the next read
// overwrites) must not be retained.  Retaining it is reported as a failed obligation.
func (e *Engine) borrowCheck(fr *Frame, st *State, v *Val, how string, pos token.Pos) {
	lender := v.Borrowed
	if lender == "" && v.HasCLen {
		// a varargs slice: look at the elements recorded for it
		for fk, f := range st.facts {
			if f.Borrowed != "" && strings.HasPrefix(fk, e.keyElem(sBytes)+"@") && strings.Contains(v.T, strings.Split(fk, "@")[1]) {
				lender = f.Borrowed
			}
		}
	}
	if lender == "" {
		return
	}
	o := e.addObligation(st, fr, "borrowed-slice", []string{"borrow"}, "a slice borrowed from "+lender+" (valid only until the next call) is "+how, e.posStr(pos), "false", nil)
	o.Query = preamble + "(assert true)\n" // a dataflow fact of this path: decided syntactically, reported as a failed obligation
}

// atCallChecks: `atcall callee: expr` clauses of the function under verification are proof obligations at every
// call of a function whose name ends in `.callee` (or equals it), evaluated in the caller's frame: locals are visible.
func (e *Engine) atCallChecks(fr *Frame, st *State, callee string, args []*Val, pos token.Pos) {
	matches := func(name, want string) bool {
		return name == want || strings.HasSuffix(name, "."+want) || strings.HasSuffix(name, ")."+want)
	}
	for _, cl := range e.curC.AtCalls {
		want, ord := cl.Callee, 0
		if i := strings.Index(want, "@"); i >= 0 {
			// callee@k: only the k-th static call site (in source order) of that callee in this function
			fmt.Sscanf(want[i+1:], "%d", &ord)
			want = want[:i]
		}
		if !matches(callee, want) {
			continue
		}
		if ord > 0 {
			var sites []token.Pos
			for _, b := range fr.fn.Blocks {
				for _, in := range b.Instrs {
					if ci, ok := in.(ssa.CallInstruction); ok {
						if sc := ci.Common().StaticCallee(); sc != nil && matches(sc.String(), want) {
							sites = append(sites, ci.Pos())
						}
					}
				}
			}
			sort.Slice(sites, func(a, b int) bool { return sites[a] < sites[b] })
			if ord > len(sites) || sites[ord-1] != pos {
				continue
			}
		}
		ctx := e.loopCtx(fr, st, nil, false)
		for i, a := range args {
			ctx.vars[fmt.Sprintf("$arg%d", i+1)] = a // the call's arguments (receiver first)
		}
		v, err := ctx.evalAs(cl.E, sBool)
		if err != nil {
			if os.Getenv("GOVC_DEBUG_ATCALL") != "" {
				fmt.Fprintln(os.Stderr, "atcall skip:", cl.Callee, err)
			}
			if strings.Contains(err.Error(), "unknown identifier") {
				// a local the clause mentions does not exist (yet) on this path: the clause is about the call
				// sites where it does; a clause that is evaluated at no call site at all is an error (main.go)
				continue
			}
			e.errorf("%s: atcall %s %q: %v", fr.fn, cl.Callee, cl.Src, err)
			continue
		}
		e.atCallSeen[cl] = true
		e.addObligation(st, fr, "atcall", cl.Tags, fmt.Sprintf("at call of %s: %s", cl.Callee, cl.Src), fmt.Sprintf("%s:%d", cl.File, cl.Line), v.T, nil)
	}
}
