package main

// Symbolic values and states.

import (
	"fmt"
	"go/types"
	"sort"
	"strings"

	"golang.org/x/tools/go/ssa"
)

type Addr struct {
	Kind   string // "field", "cell", "elem", "global"
	Key    string // heap key
	Base   string // ref term (field/cell/elem backing ref)
	Idx    string // absolute element index (BV64) for elem
	Struct string // elemfield: struct sort of the element
	Field  int    // elemfield: field index
}

type Val struct {
	T   string
	S   string
	Typ types.Type
	Tup []*Val
	// executor-level knowledge
	Fn        *ssa.Function
	Bind      []*Val
	Dyn       types.Type
	Box       *Val
	Addr      *Addr
	CLen      int
	HasCLen   bool
	From      *Addr   // address the value was loaded from (provenance, for guarded_by)
	Sub       *SubObj // pointer to a nested struct field: which field of which object
	Borrowed  string  // non-empty: a slice borrowed from a callee (valid only until its next call); names the lender
	Shared    string  // non-empty ([]byte values): read from memory that existed before this call (its backing array is shared); says from where
	NotShrunk string  // for a re-slice of a Shared []byte: SMT condition "the high bound is the full length" (appending then does not overwrite shared bytes)
}

type SubObj struct {
	Base   string // ref term of the enclosing object
	Struct string // struct sort of the enclosing object
	Field  int
}

func (v *Val) String() string {
	if v == nil {
		return "<nil>"
	}
	return v.T + ":" + v.S
}

type Snapshot struct {
	heap  map[string]string
	ghost map[string]string
}

type State struct {
	heap     map[string]string
	ghost    map[string]string
	pc       []string
	decls    []string
	declSet  map[string]bool
	allocs   []string        // fresh refs allocated on this path
	facts    map[string]*Val // "key@ref" -> last stored value with executor-level knowledge
	trail    []string        // branch decisions, for reporting
	entry    *Snapshot       // function-entry snapshot of the function under verification
	nsteps   int
	dead     bool
	notes    []string
	defs     map[string]string
	asserted map[string]bool
	escaped  map[string]bool // allocation refs whose address may be known to code outside the current path
}

func newState() *State {
	return &State{heap: map[string]string{}, ghost: map[string]string{}, declSet: map[string]bool{}, facts: map[string]*Val{}, defs: map[string]string{}, asserted: map[string]bool{}, escaped: map[string]bool{}}
}

func copyMap(m map[string]string) map[string]string {
	n := make(map[string]string, len(m))
	for k, v := range m {
		n[k] = v
	}
	return n
}

func (s *State) clone() *State {
	n := &State{
		heap:     copyMap(s.heap),
		ghost:    copyMap(s.ghost),
		pc:       append([]string(nil), s.pc...),
		decls:    append([]string(nil), s.decls...),
		declSet:  make(map[string]bool, len(s.declSet)),
		allocs:   append([]string(nil), s.allocs...),
		facts:    make(map[string]*Val, len(s.facts)),
		trail:    append([]string(nil), s.trail...),
		entry:    s.entry,
		nsteps:   s.nsteps,
		notes:    append([]string(nil), s.notes...),
		defs:     copyMap(s.defs),
		asserted: make(map[string]bool, len(s.asserted)),
	}
	for k, v := range s.asserted {
		n.asserted[k] = v
	}
	n.escaped = make(map[string]bool, len(s.escaped))
	for k, v := range s.escaped {
		n.escaped[k] = v
	}
	for k, v := range s.declSet {
		n.declSet[k] = v
	}
	for k, v := range s.facts {
		n.facts[k] = v
	}
	return n
}

func (s *State) snapshot() *Snapshot {
	return &Snapshot{heap: copyMap(s.heap), ghost: copyMap(s.ghost)}
}

func (s *State) declare(name, sort string) {
	if s.declSet[name] {
		return
	}
	s.declSet[name] = true
	s.decls = append(s.decls, fmt.Sprintf("(declare-const %s %s)", name, sort))
}

func (s *State) assume(f string) {
	if f == "true" || f == "" {
		return
	}
	s.asserted[f] = true
	s.pc = append(s.pc, f)
}

// Engine-wide fresh names.
var freshCtr int

func freshName(prefix string) string {
	freshCtr++
	return fmt.Sprintf("%s!%d", mangle(prefix), freshCtr)
}

func (s *State) fresh(prefix, sort string) string {
	n := freshName(prefix)
	s.declare(n, sort)
	return n
}

// define introduces a name for a (possibly large) term.
func (s *State) define(prefix, sort, term string) string {
	if len(term) < 120 {
		return term
	}
	if n, ok := s.defs[term]; ok {
		return n
	}
	n := s.fresh(prefix, sort)
	s.defs[term] = n
	s.pc = append(s.pc, eq(n, term))
	return n
}

// heap key helpers
func (e *Engine) heapSort(key string) string {
	if s, ok := e.hsorts[key]; ok {
		return s
	}
	panic("unknown heap key " + key)
}

func (e *Engine) keyField(structSort string, i int) string {
	k := fmt.Sprintf("F|%s|%d", structSort, i)
	if _, ok := e.hsorts[k]; !ok {
		e.hsorts[k] = arr(sInt, e.reg.structs[structSort].FSorts[i])
	}
	return k
}

func (e *Engine) keyCell(sort string) string {
	k := "C|" + sort
	if _, ok := e.hsorts[k]; !ok {
		e.hsorts[k] = arr(sInt, sort)
	}
	return k
}

func (e *Engine) keyElem(sort string) string {
	k := "E|" + sort
	if _, ok := e.hsorts[k]; !ok {
		e.hsorts[k] = arr(sInt, arr(sBV64, sort))
	}
	return k
}

func (e *Engine) keyMapP(ks, vs string) string {
	k := "MP|" + ks + "|" + vs
	if _, ok := e.hsorts[k]; !ok {
		e.hsorts[k] = arr(sInt, arr(ks, sBool))
	}
	return k
}

func (e *Engine) keyMapV(ks, vs string) string {
	k := "MV|" + ks + "|" + vs
	if _, ok := e.hsorts[k]; !ok {
		e.hsorts[k] = arr(sInt, arr(ks, vs))
	}
	return k
}

func (e *Engine) keyGlobal(g *ssa.Global) string {
	k := "G|" + g.String()
	if _, ok := e.hsorts[k]; !ok {
		e.hsorts[k] = e.reg.sortOf(g.Type().(*types.Pointer).Elem())
		e.gtypes[k] = g.Type().(*types.Pointer).Elem()
	}
	return k
}

// heapGet returns the current term of a heap key in map m (declaring the initial constant lazily).
func (e *Engine) heapGet(st *State, m map[string]string, key string) string {
	if t, ok := m[key]; ok {
		return t
	}
	name := "H0_" + mangle(key)
	st.declare(name, e.heapSort(key))
	return name
}

func (e *Engine) ghostGet(st *State, m map[string]string, name string) string {
	if t, ok := m[name]; ok {
		return t
	}
	g := e.specs.Ghosts[name]
	so, err := e.reg.specSort(g.Sort)
	if err != nil {
		panic(err)
	}
	c := "G0_" + name
	st.declare(c, so)
	return c
}

func (e *Engine) ghostSort(name string) string {
	so, err := e.reg.specSort(e.specs.Ghosts[name].Sort)
	if err != nil {
		panic(err)
	}
	return so
}

// heapSet assigns a new term to a heap key, naming it to keep terms flat.
func (e *Engine) heapSet(st *State, key, term string) {
	n := st.fresh("H_"+key, e.heapSort(key))
	st.pc = append(st.pc, eq(n, term))
	st.heap[key] = n
}

func (e *Engine) heapHavoc(st *State, key string) {
	st.heap[key] = st.fresh("Hh_"+key, e.heapSort(key))
	for k := range st.facts {
		if strings.HasPrefix(k, key+"@") {
			delete(st.facts, k)
		}
	}
}

func (e *Engine) havocAllHeap(st *State) {
	var keys []string
	for k := range e.hsorts {
		keys = append(keys, k)
	}
	sort.Strings(keys)
	for _, k := range keys {
		if strings.HasPrefix(k, "G|") && e.isSentinelKey(k) {
			continue
		}
		old, had := st.heap[k]
		e.heapHavoc(st, k)
		// allocations of this path whose address never escaped cannot be reached by anybody else: they keep their content
		if had && !strings.HasPrefix(k, "G|") {
			for _, a := range st.allocs {
				if !st.escaped[a] {
					st.pc = append(st.pc, eq(sel(st.heap[k], a), sel(old, a)))
				}
			}
		}
	}
	kept := map[string]*Val{}
	for fk, v := range st.facts {
		// facts about non-escaped allocations survive
		for _, a := range st.allocs {
			if !st.escaped[a] && strings.Contains(fk, "@"+a) {
				kept[fk] = v
			}
		}
	}
	st.facts = kept
}

// markEscaped records every allocation reference occurring in a term as escaped.
func (st *State) markEscaped(term string) {
	for i := 0; i+3 < len(term); i++ {
		if term[i] == '(' && term[i+1] == '-' && term[i+2] == ' ' {
			j := i + 3
			for j < len(term) && term[j] >= '0' && term[j] <= '9' {
				j++
			}
			if j < len(term) && term[j] == ')' && j > i+3 {
				st.escaped[term[i:j+1]] = true
			}
		}
	}
}

// wfRef returns the constraint that a (possibly loaded/havocked) value of the given sort only
// mentions references that existed before this path's allocations, or one of those allocations.
func (e *Engine) wfVal(st *State, term, sort string) string {
	refOK := func(r string) string {
		alts := []string{"(>= " + r + " 0)"}
		for _, a := range st.allocs {
			alts = append(alts, eq(r, a))
		}
		return or(alts...)
	}
	switch sort {
	case sInt:
		return refOK(term)
	case sIface:
		return refOK("(i_ref " + term + ")")
	case sSlice:
		return and(refOK("(s_ref "+term+")"),
			"(bvsge (s_len "+term+") #x0000000000000000)",
			"(bvsle (s_len "+term+") (s_cap "+term+"))",
			"(bvsge (s_off "+term+") #x0000000000000000)",
			"(bvslt (s_off "+term+") #x4000000000000000)",
			"(bvslt (s_cap "+term+") #x4000000000000000)",
			"(=> (= (s_ref "+term+") 0) (= (s_cap "+term+") #x0000000000000000))")
	case sBytes:
		return and("(=> (b_nil "+term+") (= (b_str "+term+") empty_str))",
			"(bvsge (slen (b_str "+term+")) #x0000000000000000)")
	case sStr:
		return "(bvsge (slen " + term + ") #x0000000000000000)"
	}
	if info, ok := e.reg.structs[sort]; ok {
		var cs []string
		for i, fs := range info.FSorts {
			c := e.wfVal(st, fmt.Sprintf("(%s_f%d %s)", sort, i, term), fs)
			cs = append(cs, c)
		}
		return and(cs...)
	}
	return "true"
}

// newRef allocates a fresh reference on this path.
func (st *State) newRef() string {
	r := fmt.Sprintf("(- %d)", len(st.allocs)+1)
	st.allocs = append(st.allocs, r)
	return r
}

// defineAlways names a term (hash-consed per state) regardless of its size.
func (s *State) defineAlways(prefix, sort, term string) string {
	if n, ok := s.defs[term]; ok {
		return n
	}
	n := s.fresh(prefix, sort)
	s.defs[term] = n
	s.pc = append(s.pc, eq(n, term))
	return n
}
