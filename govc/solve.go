package main

// Discharging obligations with z3-new, z3 and cvc5.

import (
	"bytes"
	"context"
	"fmt"
	"os"
	"os/exec"
	"path/filepath"
	"strings"
	"sync"
	"time"
)

type solverRes struct {
	solver string
	res    string // sat, unsat, unknown, timeout, error
	out    string
	secs   float64
}

func runSolver(solver, file string, timeoutMs int) solverRes {
	var cmd *exec.Cmd
	ctx, cancel := context.WithTimeout(context.Background(), time.Duration(timeoutMs+3000)*time.Millisecond)
	defer cancel()
	switch solver {
	case "z3-new", "z3":
		cmd = exec.CommandContext(ctx, solver, "-smt2", fmt.Sprintf("-t:%d", timeoutMs), file)
	case "cvc5":
		cmd = exec.CommandContext(ctx, "cvc5", "--lang=smt2", fmt.Sprintf("--tlimit=%d", timeoutMs), "--produce-models", file)
	}
	var out bytes.Buffer
	cmd.Stdout = &out
	cmd.Stderr = &out
	t0 := time.Now()
	_ = cmd.Run()
	secs := time.Since(t0).Seconds()
	o := out.String()
	first := strings.TrimSpace(strings.SplitN(o, "\n", 2)[0])
	r := solverRes{solver: solver, out: o, secs: secs}
	switch {
	case first == "sat" || first == "unsat" || first == "unknown":
		r.res = first
	case strings.Contains(first, "timeout") || ctx.Err() != nil || strings.Contains(o, "interrupted by timeout"):
		r.res = "timeout"
	default:
		r.res = "error"
	}
	return r
}

func writeQuery(dir string, idx int, o *Obligation, forCVC bool) string {
	return writeQueryExtra(dir, idx, o, forCVC, nil, "")
}

func writeQueryExtra(dir string, idx int, o *Obligation, forCVC bool, extra []string, tag string) string {
	var b strings.Builder
	b.WriteString("(set-option :produce-models true)\n")
	if forCVC {
		b.WriteString("(set-logic ALL)\n")
	}
	b.WriteString("; " + o.ID + " | " + o.Kind + " | " + o.Clause + "\n")
	q := o.Query
	if forCVC {
		q = cvcConstArrays(q)
	}
	var tail strings.Builder
	for _, x := range extra {
		tail.WriteString("(assert " + x + ")\n")
	}
	tail.WriteString("(check-sat)\n")
	if len(o.Probes) > 0 {
		var ts []string
		for _, p := range o.Probes {
			ts = append(ts, p.Term)
		}
		tail.WriteString("(get-value (" + strings.Join(ts, " ") + "))\n")
	}
	if litReg != nil {
		// declare exactly the string literals this query (with its extras and probes) mentions
		q = strings.Replace(q, litMarker+"\n", litReg.litDecls(q+tail.String()), 1)
		q = strings.Replace(q, declMarker+"\n", litReg.structDecls(q+tail.String()), 1)
	}
	b.WriteString(q)
	b.WriteString(tail.String())
	suffix := ".smt2"
	if forCVC {
		suffix = ".cvc5.smt2"
	}
	f := filepath.Join(dir, fmt.Sprintf("q%05d%s%s", idx, tag, suffix))
	os.WriteFile(f, []byte(b.String()), 0o644)
	return f
}

// discharge runs all obligations; quick: z3-new first then the others; thorough: all three.
var nPolished int

var nRetried int

func discharge(obls []*Obligation, dir string, jobs, timeoutMs int, thorough bool, keepFailed string) float64 {
	os.MkdirAll(dir, 0o755)
	var wg sync.WaitGroup
	sem := make(chan struct{}, jobs)
	var mu sync.Mutex
	total := 0.0
	for i, o := range obls {
		wg.Add(1)
		sem <- struct{}{}
		go func(i int, o *Obligation) {
			defer wg.Done()
			defer func() { <-sem }()
			f := writeQuery(dir, i, o, false)
			fc := ""
			var results []solverRes
			run := func(s string) solverRes {
				file := f
				if s == "cvc5" {
					if fc == "" {
						fc = writeQuery(dir, i, o, true)
					}
					file = fc
				}
				r := runSolver(s, file, timeoutMs)
				mu.Lock()
				total += r.secs
				mu.Unlock()
				return r
			}
			decided := func(r solverRes) bool { return r.res == "sat" || r.res == "unsat" }
			r := run("z3-new")
			results = append(results, r)
			if thorough || !decided(r) {
				ch := make(chan solverRes, 2)
				go func() { ch <- run("z3") }()
				go func() { ch <- run("cvc5") }()
				results = append(results, <-ch, <-ch)
			}
			// nobody decided: before calling the obligation undecided, give the primary solver one long, undisturbed
			// attempt (a loaded machine turns a 1 s proof into a timeout; an alarm for that reason would be a false one).
			// Capped: a tree with many genuinely undecidable obligations must not take hours.
			anyDecided := false
			for _, x := range results {
				if decided(x) {
					anyDecided = true
				}
			}
			if !anyDecided {
				mu.Lock()
				nRetried++
				retry := nRetried <= 40
				mu.Unlock()
				if retry {
					rr := runSolver("z3-new", f, 6*timeoutMs)
					rr.solver = "z3-new(long)"
					mu.Lock()
					total += rr.secs
					mu.Unlock()
					results = append(results, rr)
				}
			}
			// combine
			var sat, unsat []string
			secs := 0.0
			for _, x := range results {
				secs += x.secs
				if x.res == "sat" {
					sat = append(sat, x.solver)
				}
				if x.res == "unsat" {
					unsat = append(unsat, x.solver)
				}
			}
			o.Secs = secs
			switch {
			case len(sat) > 0 && len(unsat) > 0:
				o.Result = "conflict"
				o.Solver = strings.Join(append(sat, unsat...), ",")
			case len(sat) > 0:
				o.Result = "sat"
				o.Solver = strings.Join(sat, ",")
				for _, x := range results {
					if x.res == "sat" {
						o.Model = parseModel(o, x.out)
						break
					}
				}
				// a nicer (realisable) model: all preferences, then each prefix (only for the first failures: a
				// tree with hundreds of failing obligations does not need a polished model for each)
				mu.Lock()
				nPolished++
				polish := nPolished <= 24
				mu.Unlock()
				for n := len(o.Prefer); polish && n > 0 && o.Expect == "unsat"; n-- {
					pf := writeQueryExtra(dir, i, o, false, o.Prefer[:n], fmt.Sprintf(".pref%d", n))
					pr := runSolver("z3-new", pf, timeoutMs)
					os.Remove(pf)
					if pr.res == "sat" {
						o.Model = parseModel(o, pr.out)
						break
					}
				}
			case len(unsat) > 0:
				o.Result = "unsat"
				o.Solver = strings.Join(unsat, ",")
			default:
				var rs []string
				for _, x := range results {
					rs = append(rs, x.solver+":"+x.res)
				}
				o.Result = "unknown"
				o.Solver = strings.Join(rs, ",")
				if len(results) > 0 && results[0].res == "error" {
					o.Model = firstLines(results[0].out, 5)
				}
			}
			if o.Expect == "unsat" {
				switch o.Result {
				case "unsat":
					o.Status = "discharged"
				case "sat":
					o.Status = "failed"
				default:
					o.Status = "unknown"
				}
			} else {
				switch o.Result {
				case "sat":
					o.Status = "ok"
				case "unsat":
					o.Status = "vacuous"
				default:
					o.Status = "unknown"
				}
			}
			if o.Status == "failed" || o.Status == "unknown" || (o.Status == "vacuous") || os.Getenv("GOVC_KEEPALL") != "" {
				if keepFailed != "" {
					os.MkdirAll(keepFailed, 0o755)
					data, _ := os.ReadFile(f)
					os.WriteFile(filepath.Join(keepFailed, mangle(o.ID)+".smt2"), data, 0o644)
				}
			}
			os.Remove(f)
			if fc != "" {
				os.Remove(fc)
			}
		}(i, o)
	}
	wg.Wait()
	return total
}

func firstLines(s string, n int) string {
	ls := strings.Split(s, "\n")
	if len(ls) > n {
		ls = ls[:n]
	}
	return strings.Join(ls, "\n")
}

// parseModel pairs probe names with the values printed by get-value.
func parseModel(o *Obligation, out string) string {
	i := strings.Index(out, "\n")
	if i < 0 || len(o.Probes) == 0 {
		return ""
	}
	body := strings.TrimSpace(out[i+1:])
	// body: ((term value) (term value) ...)
	vals := splitSexprs(strings.TrimSuffix(strings.TrimPrefix(body, "("), ")"))
	var b strings.Builder
	for j, p := range o.Probes {
		if j < len(vals) {
			pair := splitSexprs(strings.TrimSuffix(strings.TrimPrefix(strings.TrimSpace(vals[j]), "("), ")"))
			v := ""
			if len(pair) >= 2 {
				v = pair[len(pair)-1]
			}
			fmt.Fprintf(&b, "%s = %s\n", p.Name, v)
		}
	}
	return b.String()
}

func splitSexprs(s string) []string {
	var out []string
	d := 0
	start := -1
	for i := 0; i < len(s); i++ {
		c := s[i]
		switch {
		case c == '(':
			if d == 0 && start < 0 {
				start = i
			}
			d++
		case c == ')':
			d--
			if d == 0 && start >= 0 {
				out = append(out, s[start:i+1])
				start = -1
			}
		case c == ' ' || c == '\n' || c == '\t':
			if d == 0 && start >= 0 {
				out = append(out, s[start:i])
				start = -1
			}
		default:
			if d == 0 && start < 0 {
				start = i
			}
		}
	}
	if start >= 0 {
		out = append(out, s[start:])
	}
	return out
}

// cvcConstArrays replaces ((as const S) v) with v not a value (cvc5 rejects it) by a fresh
// unconstrained array constant: weaker assumptions, so `unsat` answers stay sound.
func cvcConstArrays(q string) string {
	const pat = "((as const "
	var decls strings.Builder
	var out strings.Builder
	n := 0
	for {
		i := strings.Index(q, pat)
		if i < 0 {
			out.WriteString(q)
			break
		}
		// sort: from i+len(pat) to matching paren of "(as const"
		j := i + 1 // at "(as const"
		d := 0
		k := j
		for ; k < len(q); k++ {
			if q[k] == '(' {
				d++
			} else if q[k] == ')' {
				d--
				if d == 0 {
					break
				}
			}
		}
		sort := strings.TrimSpace(q[i+len(pat) : k])
		// value: from k+1 to matching close of the outer paren
		d = 1
		m := k + 1
		for ; m < len(q); m++ {
			if q[m] == '(' {
				d++
			} else if q[m] == ')' {
				d--
				if d == 0 {
					break
				}
			}
		}
		val := strings.TrimSpace(q[k+1 : m])
		if isSMTValue(val) {
			out.WriteString(q[:m+1])
		} else {
			n++
			name := fmt.Sprintf("cvc_zarr_%d", n)
			fmt.Fprintf(&decls, "(declare-const %s %s)\n", name, sort)
			out.WriteString(q[:i])
			out.WriteString(name)
		}
		q = q[m+1:]
	}
	return decls.String() + out.String()
}

func isSMTValue(v string) bool {
	if v == "true" || v == "false" || strings.HasPrefix(v, "#x") || strings.HasPrefix(v, "#b") {
		return true
	}
	if len(v) > 0 && v[0] >= '0' && v[0] <= '9' {
		return true
	}
	if strings.HasPrefix(v, "(mkIface 0 0)") || strings.HasPrefix(v, "(mkSlice 0 #x") {
		return true
	}
	return false
}
