//go:build huntdemo

package bastion

import (
	"bytes"
	"encoding/base64"
	"strings"
	"testing"
)

// Property C11: "a body without a well-formed old-size line, with a proof line
// that is not base64, or that ends before the blank separator is refused rather
// than partly understood."
func TestHuntParseBodyLongLineSplit(t *testing.T) {
	t.Run("no blank separator anywhere in the body", func(t *testing.T) {
		// old-size line, ONE proof line (valid base64, 4096 chars), then the
		// checkpoint directly, with NO blank separator line.
		body := "old 7\n" + strings.Repeat("A", 4096) + "\n" + "example.com/log\n10\nq6urq6urq6urq6urq6urq6urq6urq6urq6urq6urq6s=\n"
		if strings.Contains(body, "\n\n") || strings.HasPrefix(body, "\n") {
			t.Fatal("test bug: body contains a blank line")
		}
		size, proof, cp, err := parseBody(bytes.NewReader([]byte(body)))
		if err == nil {
			t.Errorf("body with no blank separator line was accepted: old=%d, %d proof hashes, checkpoint=%q", size, len(proof), cp)
		}
	})
	t.Run("proof line that is not base64", func(t *testing.T) {
		line := strings.Repeat("A", 4092) + "QQ==" + "QQ=="
		if _, err := base64.StdEncoding.DecodeString(line); err == nil {
			t.Fatal("test bug: line is valid base64")
		}
		body := "old 7\n" + line + "\n\n" + "example.com/log\n10\nq6urq6urq6urq6urq6urq6urq6urq6urq6urq6urq6s=\n"
		size, proof, cp, err := parseBody(bytes.NewReader([]byte(body)))
		if err == nil {
			t.Errorf("body whose single proof line is not base64 was accepted: old=%d, %d proof hashes (lens %d,%d), checkpoint=%q", size, len(proof), len(proof[0]), len(proof[1]), cp)
		}
	})
	t.Run("old-size line partly understood", func(t *testing.T) {
		// The old-size line is "old 000...01" + "2345": one line, whose number is 12345.
		body := "old " + strings.Repeat("0", 4091) + "1" + "2345\n\n" + "example.com/log\n10\nq6urq6urq6urq6urq6urq6urq6urq6urq6urq6urq6s=\n"
		size, proof, cp, err := parseBody(bytes.NewReader([]byte(body)))
		if err == nil && (size != 12345 || len(proof) != 0) {
			t.Errorf("old-size line partly understood: old=%d (line says 12345), %d proof hashes %x, checkpoint=%q", size, len(proof), proof, cp)
		}
	})
}
