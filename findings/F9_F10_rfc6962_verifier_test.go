//go:build huntdemo

// Demonstrations for property C02 ("Only checkpoints signed by the named log's
// key and origin are ever accepted").
//
// Place this file in omniwitness/ and run:
//
//	go test -tags huntdemo -vet=off -count=1 -run 'TestHunt' ./omniwitness/
//
// All witnesses below are configured through the production path
// LogConfig.AsLogMap (omniwitness/configs.go), which turns the PublicKey string
// into a verifier with formats/note.NewVerifier. That function dispatches on the
// key's algorithm byte; 0x05 selects the RFC6962 (Certificate Transparency STH)
// verifier of github.com/transparency-dev/formats pinned in go.mod.
package omniwitness

import (
	"bytes"
	"context"
	"crypto"
	"crypto/ecdsa"
	"crypto/elliptic"
	"crypto/rand"
	"crypto/rsa"
	"crypto/sha256"
	"encoding/base64"
	"encoding/binary"
	"fmt"
	"strings"
	"testing"

	logfmt "github.com/transparency-dev/formats/log"
	f_note "github.com/transparency-dev/formats/note"
	"github.com/transparency-dev/witness/internal/persistence/inmemory"
	"github.com/transparency-dev/witness/internal/witness"
	"github.com/transparency-dev/witness/monitoring"
	"golang.org/x/mod/sumdb/note"
)

const huntWitnessSK = "PRIVATE+KEY+witness+f13a86db+AaLa/dfyBhyo/m0Z7WCi98ENVZWtrP8pxgRNrx7tIWiA"

// huntWitness builds a witness from a LogConfig exactly as omniwitness.Main does.
func huntWitness(t *testing.T, cfg LogConfig) *witness.Witness {
	t.Helper()
	monitoring.SetMetricFactory(monitoring.InertMetricFactory{})
	known, err := cfg.AsLogMap()
	if err != nil {
		t.Fatalf("AsLogMap: %v", err)
	}
	ws, err := f_note.NewSignerForCosignatureV1(huntWitnessSK)
	if err != nil {
		t.Fatalf("witness signer: %v", err)
	}
	w, err := witness.New(witness.Opts{
		Persistence: inmemory.NewPersistence(),
		Signers:     []note.Signer{ws},
		KnownLogs:   known,
	})
	if err != nil {
		t.Fatalf("witness.New: %v", err)
	}
	return w
}

// sthInput is the RFC6962 TreeHeadSignature structure a CT log signs.
func sthInput(ts, size uint64, root [32]byte) []byte {
	b := []byte{0 /* v1 */, 1 /* tree_hash */}
	b = binary.BigEndian.AppendUint64(b, ts)
	b = binary.BigEndian.AppendUint64(b, size)
	return append(b, root[:]...)
}

// rfc6962Checkpoint renders a checkpoint note for an RFC6962 log: the note
// signature is keyhash || timestamp || hashAlg || sigAlg || len(sig) || sig.
func rfc6962Checkpoint(v note.Verifier, sizeLine string, root [32]byte, ts uint64, sigAlg byte, rawSig []byte) []byte {
	body := fmt.Sprintf("%s\n%s\n%s\n", v.Name(), sizeLine, base64.StdEncoding.EncodeToString(root[:]))
	sig := binary.BigEndian.AppendUint32(nil, v.KeyHash())
	sig = binary.BigEndian.AppendUint64(sig, ts)
	sig = append(sig, 0x04 /* sha256 */, sigAlg)
	sig = binary.BigEndian.AppendUint16(sig, uint16(len(rawSig)))
	sig = append(sig, rawSig...)
	return []byte(fmt.Sprintf("%s\n— %s %s\n", body, v.Name(), base64.StdEncoding.EncodeToString(sig)))
}

// TestHuntRSAForgedCheckpointAccepted: for a log whose configured key is an
// RFC6962 RSA key (as used by many CT logs), a checkpoint that NOBODY signed
// (16 bytes of 0xAA in place of the signature) is accepted, cosigned and stored,
// while the checkpoint really signed with the log's RSA key is refused.
//
// Cause: formats/note/note_rfc6962.go, verifyRFC6962:
//
//	return rsa.VerifyPKCS1v15(k, crypto.SHA256, dgst[:], sig) != nil
//
// VerifyPKCS1v15 returns nil on success, so the test is inverted.
func TestHuntRSAForgedCheckpointAccepted(t *testing.T) {
	key, err := rsa.GenerateKey(rand.Reader, 2048)
	if err != nil {
		t.Fatal(err)
	}
	vkey, err := f_note.RFC6962VerifierString("https://ct.example.com/rsa2024", key.Public())
	if err != nil {
		t.Fatal(err)
	}
	v, err := f_note.NewVerifier(vkey)
	if err != nil {
		t.Fatal(err)
	}
	origin := v.Name() // the RFC6962 verifier demands origin == key name
	cfg := LogConfig{Logs: []LogInfo{{Origin: origin, PublicKey: vkey}}}
	logID := logfmt.ID(origin)

	root := sha256.Sum256([]byte("a tree the log never had"))
	const ts, size = 1700000000000, 5

	// (a) A forgery: no private key involved at all.
	forged := rfc6962Checkpoint(v, "5", root, ts, 0x01 /* rsa */, bytes.Repeat([]byte{0xAA}, 16))
	w := huntWitness(t, cfg)
	got, err := w.Update(context.Background(), logID, 0, forged, nil)
	if err == nil {
		stored, _ := w.GetCheckpoint(logID)
		t.Errorf("C02 VIOLATED: checkpoint with a junk signature (no key used) was accepted and cosigned for log %q.\nsubmitted:\n%s\nreturned:\n%s\nstored:\n%s", origin, forged, got, stored)
	} else {
		t.Logf("forged checkpoint refused as it should be: %v", err)
	}

	// (b) The honest checkpoint, really signed with the configured RSA key.
	dgst := sha256.Sum256(sthInput(ts, size, root))
	realSig, err := rsa.SignPKCS1v15(rand.Reader, key, crypto.SHA256, dgst[:])
	if err != nil {
		t.Fatal(err)
	}
	honest := rfc6962Checkpoint(v, "5", root, ts, 0x01, realSig)
	w2 := huntWitness(t, cfg)
	if _, err := w2.Update(context.Background(), logID, 0, honest, nil); err != nil {
		t.Errorf("the checkpoint genuinely signed with the configured RSA key is refused: %v", err)
	}
}

// TestHuntRFC6962LineEditAccepted: for a log with an RFC6962 ECDSA key, a line
// edit of a valid checkpoint (size line "7" -> "007") is accepted: the text that
// is stored and cosigned is not byte-identical to the checkpoint the log issued.
//
// Cause: the RFC6962 verifier does not verify the note text; it re-parses the
// text (strconv.ParseUint, non-strict base64) and verifies the signature over
// the re-encoded binary STH, so every text that parses to the same
// (origin,size,root) verifies under the same signature.
func TestHuntRFC6962LineEditAccepted(t *testing.T) {
	key, err := ecdsa.GenerateKey(elliptic.P256(), rand.Reader)
	if err != nil {
		t.Fatal(err)
	}
	vkey, err := f_note.RFC6962VerifierString("https://ct.example.com/ecdsa2024", key.Public())
	if err != nil {
		t.Fatal(err)
	}
	v, err := f_note.NewVerifier(vkey)
	if err != nil {
		t.Fatal(err)
	}
	origin := v.Name()
	cfg := LogConfig{Logs: []LogInfo{{Origin: origin, PublicKey: vkey}}}
	logID := logfmt.ID(origin)

	root := sha256.Sum256([]byte("root"))
	const ts, size = 1700000000000, 7
	dgst := sha256.Sum256(sthInput(ts, size, root))
	sig, err := ecdsa.SignASN1(rand.Reader, key, dgst[:])
	if err != nil {
		t.Fatal(err)
	}
	valid := rfc6962Checkpoint(v, "7", root, ts, 0x03 /* ecdsa */, sig)

	// Sanity: the valid checkpoint is accepted by a fresh witness.
	if _, err := huntWitness(t, cfg).Update(context.Background(), logID, 0, valid, nil); err != nil {
		t.Fatalf("valid RFC6962/ECDSA checkpoint refused: %v", err)
	}

	for _, edit := range []struct{ name, sizeLine string }{
		{"size 7 -> 007", "007"},
		{"size 7 -> 0000000000000000000000007", "0000000000000000000000007"},
	} {
		edited := rfc6962Checkpoint(v, edit.sizeLine, root, ts, 0x03, sig)
		if bytes.Equal(edited, valid) {
			t.Fatal("edit did not change the checkpoint")
		}
		w := huntWitness(t, cfg)
		if _, err := w.Update(context.Background(), logID, 0, edited, nil); err == nil {
			stored, _ := w.GetCheckpoint(logID)
			t.Errorf("C02 VIOLATED (%s): body-edited checkpoint accepted; stored+cosigned text is not what the log issued:\n%s", edit.name, stored)
		}
	}

	// Same with a single bit flip in the root-hash line: the last base64
	// character before '=' carries two unused bits.
	lines := strings.Split(string(valid), "\n")
	h := []byte(lines[2])
	h[len(h)-2] ^= 0x02 // e.g. 'A' (000000) -> 'C' (000010): only padding bits change
	if _, err := base64.StdEncoding.DecodeString(string(h)); err == nil {
		lines[2] = string(h)
		flipped := []byte(strings.Join(lines, "\n"))
		w := huntWitness(t, cfg)
		if _, err := w.Update(context.Background(), logID, 0, flipped, nil); err == nil {
			t.Errorf("C02 VIOLATED (bit flip in body): checkpoint with root line %q instead of %q accepted", lines[2], strings.Split(string(valid), "\n")[2])
		}
	}
}

// TestHuntRFC6962TruncatedSignaturePanics: truncating the signature of a valid
// RFC6962 checkpoint so that 8..11 bytes follow the key hash does not yield a
// refusal but a runtime panic inside Witness.Update (index out of range in
// verifyRFC6962, which only checks len(sig) >= 8 before reading sig[8..11]).
// The same parse runs unprotected in the feeder goroutines (feeder.FeedOnce).
func TestHuntRFC6962TruncatedSignaturePanics(t *testing.T) {
	key, err := ecdsa.GenerateKey(elliptic.P256(), rand.Reader)
	if err != nil {
		t.Fatal(err)
	}
	vkey, err := f_note.RFC6962VerifierString("https://ct.example.com/ecdsa2024", key.Public())
	if err != nil {
		t.Fatal(err)
	}
	v, err := f_note.NewVerifier(vkey)
	if err != nil {
		t.Fatal(err)
	}
	origin := v.Name()
	cfg := LogConfig{Logs: []LogInfo{{Origin: origin, PublicKey: vkey}}}
	logID := logfmt.ID(origin)
	root := sha256.Sum256([]byte("root"))

	for extra := 8; extra <= 11; extra++ {
		body := fmt.Sprintf("%s\n7\n%s\n", origin, base64.StdEncoding.EncodeToString(root[:]))
		sig := binary.BigEndian.AppendUint32(nil, v.KeyHash())
		sig = append(sig, make([]byte, extra)...) // truncated: timestamp (+ up to 3 bytes) only
		cp := []byte(fmt.Sprintf("%s\n— %s %s\n", body, origin, base64.StdEncoding.EncodeToString(sig)))
		func() {
			defer func() {
				if r := recover(); r != nil {
					t.Errorf("truncated signature (%d bytes after key hash): Update PANICKED instead of refusing: %v", extra, r)
				}
			}()
			w := huntWitness(t, cfg)
			if _, err := w.Update(context.Background(), logID, 0, cp, nil); err == nil {
				t.Errorf("truncated signature accepted")
			}
		}()
	}
}
