//go:build huntdemo

// Place this file at internal/http/hunt_oddid_test.go (package http, next to
// server_test.go whose helpers newWitness/createTestEnv/mPK/mInit it uses).
//
// C16: "requests naming known, unknown and syntactically odd IDs (the latter
// two must yield 404, never another log's checkpoint)".
//
// The router is a gorilla/mux router with path cleaning left on. A request
// whose log-ID segment is empty, ".", "..", or contains an (escaped) slash or
// dot segment does not match the route pattern - but instead of 404 the server
// answers 301, and for IDs such as "%2F<id>", "<id>%2F", "x%2F..%2F<id>" the
// Location it hands out is the checkpoint URL of the real log <id>. The bundled
// HTTP client (like any redirect-following client) therefore returns the bytes
// of log <id>'s checkpoint, with a nil error, for a name that is not the ID of
// any log, where feeders are promised os.ErrNotExist.
package http

import (
	"bytes"
	"context"
	"errors"
	"fmt"
	"io"
	"net/http"
	"net/url"
	"os"
	"testing"

	"github.com/transparency-dev/formats/log"
	"github.com/transparency-dev/witness/api"
	chttp "github.com/transparency-dev/witness/client/http"
	"github.com/transparency-dev/witness/monitoring"
)

func TestHuntOddLogIDs(t *testing.T) {
	monitoring.SetMetricFactory(monitoring.InertMetricFactory{})
	ctx := context.Background()

	// One known log, ID produced by the repository's own origin-to-ID function,
	// holding one accepted checkpoint.
	id := log.ID(logOrigin)
	w := newWitness(t, []logOpts{{ID: id, origin: logOrigin, PK: mPK}})
	stored, err := w.Update(ctx, id, 0, mInit, nil)
	if err != nil {
		t.Fatalf("Update: %v", err)
	}
	ts, closeFn := createTestEnv(w)
	defer closeFn()

	// Sanity: the log list holds exactly that one ID, and the proper ID is served.
	if logs, err := w.GetLogs(); err != nil || len(logs) != 1 || logs[0] != id {
		t.Fatalf("GetLogs() = %v, %v", logs, err)
	}

	oddIDs := []string{
		"",               // empty segment
		".",              // dot segment
		"..",             // dot-dot segment
		"%2e%2e",         // the same, escaped
		"%2F" + id,       // "/<id>" as ONE escaped path segment
		id + "%2F",       // "<id>/"
		"x%2F..%2F" + id, // "x/../<id>"
		"./" + id,        // unescaped variants
		id + "/.",        //
	}

	// Part 1: what the server itself answers (no redirect following).
	noFollow := &http.Client{CheckRedirect: func(*http.Request, []*http.Request) error { return http.ErrUseLastResponse }}
	for _, odd := range oddIDs {
		resp, err := noFollow.Get(ts.URL + fmt.Sprintf(api.HTTPGetCheckpoint, odd))
		if err != nil {
			t.Errorf("server, odd ID %q: %v", odd, err)
			continue
		}
		_, _ = io.Copy(io.Discard, resp.Body)
		resp.Body.Close()
		if resp.StatusCode != http.StatusNotFound {
			t.Errorf("server, odd ID %q: status %d (Location %q), want 404", odd, resp.StatusCode, resp.Header.Get("Location"))
		}
	}

	// Part 2: what the bundled client makes of it.
	u, err := url.Parse(ts.URL)
	if err != nil {
		t.Fatal(err)
	}
	cl := chttp.NewWitness(u, ts.Client())
	if got, err := cl.GetLatestCheckpoint(ctx, id); err != nil || !bytes.Equal(got, stored) {
		t.Fatalf("client, proper ID: got %q, %v", got, err)
	}
	for _, odd := range oddIDs {
		if odd == id {
			continue
		}
		got, err := cl.GetLatestCheckpoint(ctx, odd)
		if !errors.Is(err, os.ErrNotExist) {
			t.Errorf("client, odd ID %q: err = %v, want os.ErrNotExist; returned the checkpoint of log %s: %v", odd, err, id, bytes.Equal(got, stored))
		}
	}
}
