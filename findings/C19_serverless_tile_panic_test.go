//go:build huntdemo

// Place in: internal/feeder/serverless/serverless_tile_panic_hunt_test.go
//
// C19: "arbitrary responses from log servers (checkpoints, including ones validly signed by the
// log ..., tiles, JSON) ... never make the process panic ... a feeder or distributor cycle always
// ends with a result or an error."
//
// A serverless log server that answers a tile request with a tile file that was cut off after its
// first line ("32\n": the hash-size line only) makes the feeder goroutine panic with
// "index out of range [1] with length 1" in
// github.com/transparency-dev/serverless-log/api.(*Tile).UnmarshalText (it reads lines[1] without
// checking how many lines there are).  The feeder goroutines are plain errgroup goroutines in
// omniwitness.Main, nothing recovers, so the whole witness process dies.
package serverless

import (
	"context"
	"crypto/rand"
	"crypto/sha256"
	"encoding/base64"
	"fmt"
	"net/http"
	"net/http/httptest"
	"os"
	"strings"
	"testing"
	"time"

	"github.com/transparency-dev/formats/log"
	"github.com/transparency-dev/witness/internal/config"
	"golang.org/x/mod/sumdb/note"
)

type huntWitness struct {
	latest []byte
}

func (w *huntWitness) GetLatestCheckpoint(_ context.Context, _ string) ([]byte, error) {
	if w.latest == nil {
		return nil, os.ErrNotExist
	}
	return w.latest, nil
}

func (w *huntWitness) Update(_ context.Context, _ string, _ uint64, _ []byte, _ [][]byte) ([]byte, error) {
	return nil, fmt.Errorf("not reached in this test")
}

func huntSignedCP(t *testing.T, s note.Signer, origin string, size uint64) []byte {
	t.Helper()
	h := sha256.Sum256([]byte(fmt.Sprintf("root-%d", size)))
	body := fmt.Sprintf("%s\n%d\n%s\n", origin, size, base64.StdEncoding.EncodeToString(h[:]))
	cp, err := note.Sign(&note.Note{Text: body}, s)
	if err != nil {
		t.Fatalf("Sign: %v", err)
	}
	return cp
}

func TestHuntTruncatedTileCrashesFeeder(t *testing.T) {
	const origin = "hunt/serverless/log"
	skey, vkey, err := note.GenerateKey(rand.Reader, "hunt-serverless-log")
	if err != nil {
		t.Fatal(err)
	}
	signer, err := note.NewSigner(skey)
	if err != nil {
		t.Fatal(err)
	}
	verifier, err := note.NewVerifier(vkey)
	if err != nil {
		t.Fatal(err)
	}

	// The witness already holds the log's size-1 checkpoint; the log now publishes size 2.
	// Both are validly signed by the log.
	oldCP := huntSignedCP(t, signer, origin, 1)
	newCP := huntSignedCP(t, signer, origin, 2)

	var tileRequests []string
	ts := httptest.NewServer(http.HandlerFunc(func(w http.ResponseWriter, r *http.Request) {
		switch {
		case r.URL.Path == "/checkpoint":
			_, _ = w.Write(newCP)
		case strings.HasPrefix(r.URL.Path, "/tile/"):
			tileRequests = append(tileRequests, r.URL.Path)
			// A tile file truncated after its first line.
			_, _ = w.Write([]byte("32\n"))
		default:
			http.NotFound(w, r)
		}
	}))
	defer ts.Close()

	l := config.Log{
		ID:       log.ID(origin),
		Origin:   origin,
		Verifier: verifier,
		URL:      ts.URL + "/",
	}

	ctx, cancel := context.WithTimeout(context.Background(), 3*time.Second)
	defer cancel()

	var feedErr error
	panicked := func() (p interface{}) {
		defer func() { p = recover() }()
		feedErr = FeedLog(ctx, l, &huntWitness{latest: oldCP}, ts.Client(), 0)
		return nil
	}()
	if panicked != nil {
		t.Fatalf("C19 violated: the serverless feeder cycle PANICKED on a truncated tile body (tile requests: %v): %v", tileRequests, panicked)
	}
	if feedErr == nil {
		t.Fatalf("feeder cycle ended without an error although the tile was unusable")
	}
	t.Logf("feeder cycle ended with an error, as it should: %v", feedErr)
}
